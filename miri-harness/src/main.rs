//! Tiny multi-threaded scenarios on the real (unhooked) `stretto::Cache`, meant to be run under
//! Miri with many scheduler seeds: `cargo +nightly miri run -- <scenario>`.
//! A failed expectation prints `MIRI-VIOLATION property=<id> rule=<rule> <detail>` and exits 1;
//! undefined behaviour or a data race is reported by Miri itself (non-zero exit as well).

use std::sync::atomic::{AtomicUsize, Ordering};
use std::sync::Arc;
use std::time::Duration;
use stretto::{Cache, CacheBuilder, TransparentKeyBuilder};

fn fail(prop: &str, rule: &str, detail: String) -> ! {
    println!("MIRI-VIOLATION property={} rule={} {}", prop, rule, detail);
    std::process::exit(1);
}

/// all threads leave together (spin: no OS primitive Miri would have to model)
struct Gate(AtomicUsize, usize);
impl Gate {
    fn new(n: usize) -> Arc<Self> {
        Arc::new(Gate(AtomicUsize::new(0), n))
    }
    fn pass(&self) {
        self.0.fetch_add(1, Ordering::SeqCst);
        while self.0.load(Ordering::SeqCst) < self.1 {
            std::thread::yield_now();
        }
    }
}

const HOUR: Duration = Duration::from_secs(3600);

/// C18: with the default key builder every thread gets the same (index, conflict) for a key
/// from the very first use on, and every accepted insert is retrievable far below capacity.
fn first_use_hashing() {
    let c: Cache<String, u64> = Cache::builder(64, 1_000_000).set_buffer_size(64).set_cleanup_duration(HOUR).finalize().unwrap();
    let c = Arc::new(c);
    let n = 4;
    let gate = Gate::new(n);
    let hs: Vec<_> = (0..n as u64)
        .map(|t| {
            let (c, gate) = (c.clone(), gate.clone());
            std::thread::spawn(move || {
                let k = format!("key-{}", t);
                gate.pass();
                let ok = c.insert(k.clone(), t, 1);
                (k, t, ok)
            })
        })
        .collect();
    let res: Vec<_> = hs.into_iter().map(|h| h.join().unwrap()).collect();
    c.wait().unwrap();
    for (k, t, ok) in res {
        if ok {
            match c.get(&k) {
                Some(v) if *v.value() == t => {}
                other => fail("C18", "M-accepted-insert-not-retrievable", format!("key {} -> {:?}", k, other.map(|v| *v.value()))),
            }
        }
    }
    let _ = c.close();
}

/// C02: readers never see a half-written or foreign value while writers replace and edit the
/// value in place (get / get_mut / insert on one key from several threads).
fn value_refs() {
    let c: Cache<u64, [u64; 4], TransparentKeyBuilder<u64>> = CacheBuilder::new_with_key_builder(64, 1_000_000, TransparentKeyBuilder::default()).set_buffer_size(64).set_cleanup_duration(HOUR).finalize().unwrap();
    let c = Arc::new(c);
    assert!(c.insert(7, [1; 4], 1));
    c.wait().unwrap();
    let gate = Gate::new(4);
    // a third writer makes the shard's table grow (keys 7 + 256 i live in the same shard) and
    // takes the key away and puts it back: a pointer into the table must not outlive its lock
    let w3 = {
        let (c, gate) = (c.clone(), gate.clone());
        std::thread::spawn(move || {
            gate.pass();
            for i in 1..6u64 {
                c.insert(7 + 256 * i, [100 + i; 4], 1);
                if i == 3 {
                    c.remove(&7);
                    c.insert(7, [50; 4], 1);
                }
            }
            let _ = c.wait();
        })
    };
    let w1 = {
        let (c, gate) = (c.clone(), gate.clone());
        std::thread::spawn(move || {
            gate.pass();
            for i in 2..5u64 {
                if let Some(mut r) = c.get_mut(&7) {
                    let v = r.value_mut();
                    for x in v.iter_mut() {
                        *x = i;
                    }
                    // the reference stays valid (and the shard locked) across write() as well
                    r.write([i + 20; 4]);
                    let seen = *r.value();
                    if seen != [i + 20; 4] {
                        fail("C02", "M-value-changed-under-a-held-mutable-reference", format!("wrote {:?}, read {:?}", [i + 20; 4], seen));
                    }
                    r.write([i; 4]);
                } else if let Some(r) = c.get_mut(&(7 + 256)) {
                    // ... and of the mutable reference
                    let v = if i % 2 == 0 { r.read() } else { r.clone_inner() };
                    if v.iter().any(|x| *x != v[0]) {
                        fail("C02", "M-torn-value", format!("get_mut(263) read {:?}", v));
                    }
                }
            }
        })
    };
    let w2 = {
        let (c, gate) = (c.clone(), gate.clone());
        std::thread::spawn(move || {
            gate.pass();
            for i in 10..12u64 {
                c.insert(7, [i; 4], 1);
            }
        })
    };
    gate.pass();
    for j in 0..6 {
        if let Some(r) = c.get(&7) {
            // every spelling of "give me the value": each must copy it while the shard is locked
            let v = match j % 3 {
                0 => *r.value(),
                1 => r.read(),
                _ => *r.as_ref(),
            };
            if v.iter().any(|x| *x != v[0]) {
                fail("C02", "M-torn-value", format!("get(7) returned {:?}", v));
            }
        }
    }
    w1.join().unwrap();
    w2.join().unwrap();
    w3.join().unwrap();
    let _ = c.close();
}

/// C09 (with C02/C08 in destructor terms): a vetoed replacement - and one whose validator panics -
/// leaves the resident value exactly as it was, for a value type that owns heap memory: it is
/// still served (reading it must not touch freed memory) and destroyed exactly once when it
/// finally leaves.  Miri reports a use-after-free or double free by itself.
fn vetoed_update() {
    use stretto::UpdateValidator;
    struct Picky;
    impl UpdateValidator for Picky {
        type Value = String;
        fn should_update(&self, prev: &String, curr: &String) -> bool {
            if curr.starts_with("panic") {
                panic!("validator panics on {:?} (resident {:?})", curr, prev);
            }
            // reads both values: the resident one must be intact
            !(curr.starts_with("no") && !prev.is_empty())
        }
    }
    let c: Cache<u64, String, TransparentKeyBuilder<u64>, stretto::DefaultCoster<String>, Picky> = CacheBuilder::new_with_key_builder(64, 1_000_000, TransparentKeyBuilder::default())
        .set_buffer_size(64)
        .set_cleanup_duration(HOUR)
        .set_update_validator(Picky)
        .finalize()
        .unwrap();
    let expect = |c: &Cache<u64, String, TransparentKeyBuilder<u64>, stretto::DefaultCoster<String>, Picky>, what: &str, want: &str| match c.get(&1) {
        Some(r) if r.value().as_str() == want => {}
        other => fail("C09", "M-resident-value-changed-by-a-refused-update", format!("{}: get(1) returned {:?}, expected {:?}", what, other.map(|r| r.value().clone()), want)),
    };
    assert!(c.insert(1, "first-value-on-the-heap".to_string(), 1));
    c.wait().unwrap();
    expect(&c, "after the insert", "first-value-on-the-heap");
    // vetoed, through both insert spellings
    let _ = c.insert(1, "no-1".to_string(), 1);
    let _ = c.insert_if_present(1, "no-2".to_string(), 1);
    c.wait().unwrap();
    expect(&c, "after two vetoed replacements", "first-value-on-the-heap");
    // the validator panics on the caller's thread; the cache stays usable (its locks do not poison)
    let r = std::panic::catch_unwind(std::panic::AssertUnwindSafe(|| c.insert(1, "panic-1".to_string(), 1)));
    if r.is_ok() {
        fail("C09", "M-harness", "the validator did not panic".to_string());
    }
    expect(&c, "after a replacement whose validator panicked", "first-value-on-the-heap");
    // an accepted replacement, then the entry leaves: every value is destroyed exactly once
    assert!(c.insert(1, "second".to_string(), 1));
    c.wait().unwrap();
    expect(&c, "after an accepted replacement", "second");
    c.remove(&1);
    c.wait().unwrap();
    if c.get(&1).is_some() {
        fail("C09", "M-removed-entry-served", "get(1) after remove".to_string());
    }
    let _ = c.close();
}

/// C17: hits + misses equals the number of lookups, with more threads than metric stripes.
fn metrics_many_threads() {
    let c: Cache<u64, u64, TransparentKeyBuilder<u64>> = CacheBuilder::new_with_key_builder(64, 1_000_000, TransparentKeyBuilder::default()).set_buffer_size(64).set_metrics(true).set_cleanup_duration(HOUR).finalize().unwrap();
    let c = Arc::new(c);
    assert!(c.insert(1, 1, 1));
    c.wait().unwrap();
    let n = 27;
    let per = 3;
    let gate = Gate::new(n);
    let hs: Vec<_> = (0..n as u64)
        .map(|t| {
            let (c, gate) = (c.clone(), gate.clone());
            std::thread::spawn(move || {
                gate.pass();
                for i in 0..per {
                    let _ = c.get(&((t + i) % 2));
                }
            })
        })
        .collect();
    for h in hs {
        h.join().unwrap();
    }
    let m = &c.metrics;
    let (h, mi) = (m.get_hits().unwrap(), m.get_misses().unwrap());
    if h + mi != (n as u64) * per {
        fail("C17", "M-hits-plus-misses", format!("hits {} + misses {} != {} lookups", h, mi, n as u64 * per));
    }
    let _ = c.close();
}

/// C01: capacity changes racing admissions never leave more charged than the capacity in force
/// at the end (nothing is updated in place here, so there is no slack).
fn capacity_race() {
    let c: Cache<u64, u64, TransparentKeyBuilder<u64>> = CacheBuilder::new_with_key_builder(64, 40, TransparentKeyBuilder::default()).set_buffer_size(64).set_ignore_internal_cost(true).set_cleanup_duration(HOUR).finalize().unwrap();
    let c = Arc::new(c);
    let gate = Gate::new(2);
    let w = {
        let (c, gate) = (c.clone(), gate.clone());
        std::thread::spawn(move || {
            gate.pass();
            for i in 0..6 {
                c.update_max_cost(if i % 2 == 0 { 10 } else { 40 });
            }
            c.update_max_cost(10);
        })
    };
    gate.pass();
    for k in 0..12u64 {
        c.insert(k, k, 5);
    }
    w.join().unwrap();
    c.wait().unwrap();
    // one more admission re-establishes the bound under the final capacity
    c.insert(100, 100, 5);
    c.wait().unwrap();
    let resident = (0..12u64).chain([100]).filter(|k| c.get(k).is_some()).count() as i64;
    if resident * 5 > 10 {
        fail("C01", "M-over-capacity-after-admission", format!("{} entries of cost 5 resident with max_cost {}", resident, c.max_cost()));
    }
    let _ = c.close();
}


/// C08 (ownership side): heap-owning values travel through insert, in-place replacement,
/// get_mut, remove, eviction, clear and close while another thread reads them; no value is
/// handed to two callbacks, and Miri watches every move for double drops and stale references.
fn value_lifecycle() {
    use std::sync::Mutex;
    use stretto::{CacheCallback, Item};
    struct Rec(Arc<Mutex<Vec<String>>>);
    impl CacheCallback for Rec {
        type Value = String;
        fn on_exit(&self, v: Option<String>) {
            if let Some(v) = v {
                self.0.lock().unwrap().push(v);
            }
        }
        fn on_evict(&self, item: Item<String>) {
            if let Some(v) = item.val {
                self.0.lock().unwrap().push(v);
            }
        }
        fn on_reject(&self, item: Item<String>) {
            if let Some(v) = item.val {
                self.0.lock().unwrap().push(v);
            }
        }
    }
    let seen = Arc::new(Mutex::new(Vec::new()));
    let c: Cache<u64, String, TransparentKeyBuilder<u64>, stretto::DefaultCoster<String>, stretto::DefaultUpdateValidator<String>, Rec> =
        CacheBuilder::new_with_key_builder(64, 6, TransparentKeyBuilder::default())
            .set_buffer_size(64)
            .set_ignore_internal_cost(true)
            .set_cleanup_duration(HOUR)
            .set_callback(Rec(seen.clone()))
            .finalize()
            .unwrap();
    let c = Arc::new(c);
    let gate = Gate::new(2);
    let reader = {
        let (c, gate) = (c.clone(), gate.clone());
        std::thread::spawn(move || {
            gate.pass();
            for i in 0..10u64 {
                if let Some(r) = c.get(&(i % 5)) {
                    let v: String = r.value().clone();
                    if !v.starts_with(&format!("k{}-", i % 5)) {
                        fail("C02", "M-foreign-or-stale-value", format!("get({}) returned {:?}", i % 5, v));
                    }
                }
            }
        })
    };
    gate.pass();
    let mut n = 0u64;
    let mut val = |k: u64| {
        n += 1;
        format!("k{}-{}", k, n)
    };
    for k in 0..5u64 {
        c.insert(k, val(k), 2); // 3 fit, the others evict or are rejected
    }
    c.wait().unwrap();
    c.insert(1, val(1), 2); // replacement of a (possibly) resident key
    if let Some(mut r) = c.get_mut(&2) {
        r.write(val(2));
    }
    c.remove(&3);
    c.insert(7, val(7), 2);
    c.wait().unwrap();
    c.clear().unwrap();
    c.insert(8, val(8), 2);
    c.wait().unwrap();
    reader.join().unwrap();
    let _ = c.close();
    let seen = seen.lock().unwrap();
    let mut sorted = seen.clone();
    sorted.sort();
    for w in sorted.windows(2) {
        if w[0] == w[1] {
            fail("C08", "M-value-handed-to-two-callbacks", format!("{:?}", w[0]));
        }
    }
}


/// C06: len() / is_empty() agree with what is resident after removals from several threads.
fn concurrent_removes() {
    let c: Cache<u64, u64, TransparentKeyBuilder<u64>> = CacheBuilder::new_with_key_builder(64, 1_000_000, TransparentKeyBuilder::default()).set_buffer_size(64).set_cleanup_duration(HOUR).finalize().unwrap();
    let c = Arc::new(c);
    let n_threads = 2u64;
    let per = 2u64;
    for k in 0..n_threads * per + 2 {
        assert!(c.insert(k, k, 1));
    }
    c.wait().unwrap();
    let gate = Gate::new(n_threads as usize);
    let hs: Vec<_> = (0..n_threads)
        .map(|t| {
            let (c, gate) = (c.clone(), gate.clone());
            std::thread::spawn(move || {
                gate.pass();
                for i in 0..per {
                    c.remove(&(t * per + i));
                }
            })
        })
        .collect();
    for h in hs {
        h.join().unwrap();
    }
    c.wait().unwrap();
    let resident = (0..n_threads * per + 2).filter(|k| c.get(k).is_some()).count();
    if c.len() != resident || c.is_empty() != (resident == 0) {
        fail("C06", "M-len-disagrees-with-residents", format!("len() = {}, is_empty() = {}, {} keys retrievable", c.len(), c.is_empty(), resident));
    }
    let _ = c.close();
}

fn main() {
    let which = std::env::args().nth(1).unwrap_or_default();
    match which.as_str() {
        "first_use_hashing" => first_use_hashing(),
        "value_refs" => value_refs(),
        "metrics_many_threads" => metrics_many_threads(),
        "capacity_race" => capacity_race(),
        "value_lifecycle" => value_lifecycle(),
        "vetoed_update" => vetoed_update(),
        "concurrent_removes" => concurrent_removes(),
        other => {
            eprintln!("unknown scenario {:?}", other);
            std::process::exit(2);
        }
    }
    println!("ok {}", which);
}
