//! Oracle dispatch: which rule sets run for which property, plus the engine-level rules
//! (panics, stuck tasks).

use crate::exec::*;
use crate::hist::*;
use crate::oracle_est;
use crate::oracle_p;
use crate::oracle_ttl;
use crate::plan::*;
use std::collections::BTreeMap;
use stretto_sim_rt::rt::{End, Outcome};

pub struct OracleOut {
    pub violations: Vec<Violation>,
    pub probes: BTreeMap<String, u64>,
    pub nontrivial: bool,
}

pub fn check_all(h: &Hist, out: &Outcome, props: &[&str]) -> OracleOut {
    let mut o = OracleOut { violations: vec![], probes: BTreeMap::new(), nontrivial: false };
    engine_rules(h, out, &mut o);
    if h.plan.has_tag("huge_ttl") {
        // deadlines no clock value can reach: the reference models (u64 nanoseconds) do not
        // apply; only the engine rules and the dedicated rules below judge these plans
        if props.contains(&"C03") {
            huge_ttl_rules(h, &mut o);
        }
        o.nontrivial = true;
        return o;
    }
    if h.plan.has_tag("wall_step") {
        // two clocks (wall and monotonic): the reference models assume one; only the engine
        // rules and the dedicated rules below judge these plans
        wall_step_rules(h, props, &mut o);
        o.nontrivial = true;
        return o;
    }
    if props.iter().any(|p| ["C03", "C04", "C05", "C09"].contains(p)) {
        let mut want: Vec<&str> = props.to_vec();
        if props.contains(&"C09") {
            // C09 re-labels value/TTL/presence violations on conditionally written keys
            want.extend(["C03", "C04", "C05"]);
        }
        let t = oracle_ttl::check_ttl(h, &want);
        o.violations.extend(t.violations.into_iter().filter(|v| props.contains(&v.prop.as_str())));
        o.nontrivial |= t.nontrivial;
        for (k, v) in t.probes {
            *o.probes.entry(k.to_string()).or_default() += v;
        }
    }
    let mut run_p = |name: &str, f: &dyn Fn() -> oracle_p::POut| {
        if props.contains(&name) {
            let r = f();
            o.violations.extend(r.violations);
            o.nontrivial |= r.nontrivial;
            for (k, v) in r.probes {
                *o.probes.entry(k.to_string()).or_default() += v;
            }
        }
    };
    run_p("C03", &|| oracle_p::check_c03_concurrent(h));
    run_p("C04", &|| oracle_p::check_c04_concurrent(h));
    run_p("C05", &|| oracle_p::check_c05_concurrent(h));
    run_p("C05", &|| oracle_p::check_c05_tick_starvation(h));
    run_p("C09", &|| oracle_p::check_c09_concurrent(h));
    run_p("C01", &|| oracle_p::check_c01(h));
    run_p("C02", &|| oracle_p::check_c02(h));
    run_p("C06", &|| oracle_p::check_c06(h));
    run_p("C07", &|| oracle_p::check_c07(h));
    run_p("C08", &|| oracle_p::check_c08(h));
    run_p("C10", &|| oracle_p::check_c10(h));
    run_p("C11", &|| oracle_p::check_c11(h));
    run_p("C12", &|| oracle_p::check_c12(h, &out.tasks));
    run_p("C17", &|| oracle_p::check_c17(h));
    run_p("C13", &|| oracle_est::check_c13_c15(h, true, false));
    run_p("C15", &|| oracle_est::check_c13_c15(h, false, true));
    run_p("C16", &|| oracle_est::check_c16(h));
    run_p("C20", &|| oracle_est::check_c20(h));
    run_p("C18", &|| crate::oracle_c18::check_c18(h));
    // de-duplicate identical (prop, rule, fingerprint): keep the earliest
    o.violations.sort_by_key(|v| v.seq);
    let mut seen = std::collections::BTreeSet::new();
    o.violations.retain(|v| seen.insert((v.prop.clone(), v.rule.clone(), v.fingerprint.clone())));
    o
}

/// C03 for TTLs whose deadline is unreachable: after the insert was accepted and the cache has
/// quiesced (one client, roomy cache), the entry is served, reports a remaining TTL, and never
/// goes away because of time.
fn huge_ttl_rules(h: &Hist, o: &mut OracleOut) {
    let mut cur: BTreeMap<u64, (Val, u64, u64)> = BTreeMap::new(); // key -> (value, ttl code, seq of return) of the last accepted write
    for op in h.ops.iter().filter(|x| x.client == 0 && x.returned()) {
        match (&op.op, op.res.as_ref().unwrap()) {
            (Op::Insert { k, ttl_ns, .. }, Res::Bool(true)) => {
                cur.insert(*k, (op.val.unwrap(), *ttl_ns, op.ret_seq.unwrap()));
            }
            (Op::Insert { k, .. }, _) | (Op::Remove { k }, _) => {
                cur.remove(k);
            }
            (Op::Get { k, .. }, Res::Got(g)) => {
                if let Some((v, t, ws)) = cur.get(k) {
                    if *t >= u64::MAX - 3 && h.quiescent_between(*ws, op.inv_seq).is_some() && g.map(|x| x.0) != Some(*v) {
                        o.violations.push(violk("C03", "R-huge-ttl-not-served", op.ret_seq.unwrap(), *k, "an entry inserted with a TTL beyond any reachable deadline is not served", format!("get({}) returned {:?}, expected {:?} (ttl code {})", k, g.map(|x| x.0), v, u64::MAX - t)));
                    }
                }
            }
            (Op::GetTtl { k }, Res::Ttl(t)) => {
                if let Some((_, code, ws)) = cur.get(k) {
                    if *code >= u64::MAX - 3 && h.quiescent_between(*ws, op.inv_seq).is_some() && t.map_or(true, |x| x < 500 * 365 * 86400 * 1_000_000_000) {
                        o.violations.push(violk("C03", "R-huge-ttl-not-reported", op.ret_seq.unwrap(), *k, "get_ttl does not report the remaining time of an entry with a TTL beyond any reachable deadline", format!("get_ttl({}) returned {:?}", k, t)));
                    }
                }
            }
            _ => {}
        }
    }
}

/// C03/C04 when the wall clock is stepped back (one client, roomy cache, lockstep).  `wall` is
/// what `SystemTime::now()` read at an instant: monotonic time plus the skew accumulated so
/// far.  For the last accepted write of a key (creation instant within [w_lo, w_hi] on the wall
/// clock, TTL d):
///  - the entry must be served as long as the wall clock has never, since the write, shown a
///    value at or past creation + d (no reading of the clock says the TTL has elapsed; the
///    sweep works from the same clock), and always if it has no TTL;
///  - it must not be served once the wall clock shows creation + d or more;
///  - get_ttl reports d minus the (non-negative) elapsed wall time, never more than d.
fn wall_step_rules(h: &Hist, props: &[&str], o: &mut OracleOut) {
    struct W {
        val: Val,
        d: u64,
        w_lo: i128,
        w_hi: i128,
        ret_seq: u64,
        max_wall: i128,
    }
    let labels: Vec<&str> = ["C03", "C04"].into_iter().filter(|p| props.contains(p)).collect();
    if props.contains(&"C05") {
        wall_step_reclaim_rule(h, o);
    }
    if labels.is_empty() {
        return;
    }
    let mut skew: i128 = 0;
    let mut cur: BTreeMap<u64, W> = BTreeMap::new();
    // a write issued before the previous write of its key was applied may legitimately be
    // dropped (the policy already lists the key): only writes separated by a quiescent point count
    let mut last_write: BTreeMap<u64, u64> = BTreeMap::new();
    for op in h.ops.iter().filter(|x| x.client == 0) {
        let wi = op.inv_now as i128 + skew;
        for w in cur.values_mut() {
            w.max_wall = w.max_wall.max(wi);
        }
        if !op.returned() {
            break;
        }
        if let Op::WallStepBack { ns } = op.op {
            skew -= ns as i128;
            continue;
        }
        if let Op::WallStepFwd { ns } = op.op {
            skew += ns as i128;
            continue;
        }
        let wr = op.ret_now as i128 + skew;
        for w in cur.values_mut() {
            w.max_wall = w.max_wall.max(wr);
        }
        match (&op.op, op.res.as_ref().unwrap()) {
            (Op::Insert { k, ttl_ns, .. }, r) => {
                let clean = last_write.get(k).map_or(true, |p| h.quiescent_between(*p, op.inv_seq).is_some());
                last_write.insert(*k, op.ret_seq.unwrap());
                if clean && matches!(r, Res::Bool(true)) {
                    cur.insert(*k, W { val: op.val.unwrap(), d: *ttl_ns, w_lo: wi, w_hi: wr, ret_seq: op.ret_seq.unwrap(), max_wall: wr });
                } else {
                    cur.remove(k);
                }
            }
            (Op::Remove { k }, _) => {
                last_write.insert(*k, op.ret_seq.unwrap());
                cur.remove(k);
            }
            (Op::Get { k, .. }, Res::Got(g)) => {
                let Some(w) = cur.get(k) else { continue };
                let settled = h.quiescent_between(w.ret_seq, op.inv_seq).is_some();
                let never_due = w.d == 0 || w.max_wall < w.w_lo + w.d as i128;
                let surely_due = w.d != 0 && wi >= w.w_hi + w.d as i128;
                if settled && never_due && g.map(|x| x.0) != Some(w.val) {
                    for p in &labels {
                        o.violations.push(violk(p, "R-wall-step-entry-lost", op.ret_seq.unwrap(), *k, if w.d == 0 { "an entry without TTL is not served after the wall clock was stepped back" } else { "an entry whose TTL has not elapsed on any reading of the clock is not served after the wall clock was stepped back" }, format!("get({}) returned {:?}, expected {:?}; ttl {} ns, written at wall [{}, {}], highest wall reading since {}, now {}", k, g.map(|x| x.0), w.val, w.d, w.w_lo, w.w_hi, w.max_wall, wr)));
                    }
                }
                if surely_due && g.is_some() && labels.contains(&"C03") {
                    o.violations.push(violk("C03", "R-wall-step-served-after-expiry", op.ret_seq.unwrap(), *k, "an entry is served although its TTL has elapsed on the wall clock", format!("get({}) returned {:?}; ttl {} ns, written at wall [{}, {}], now [{}, {}]", k, g.map(|x| x.0), w.d, w.w_lo, w.w_hi, wi, wr)));
                }
            }
            (Op::GetTtl { k }, Res::Ttl(t)) => {
                let Some(w) = cur.get(k) else { continue };
                if !labels.contains(&"C03") {
                    continue;
                }
                let settled = h.quiescent_between(w.ret_seq, op.inv_seq).is_some();
                let never_due = w.d == 0 || w.max_wall < w.w_lo + w.d as i128;
                if !(settled && never_due) {
                    continue;
                }
                let bad = match t {
                    None => Some("reports no entry".to_string()),
                    Some(x) if w.d == 0 => (*x < 500 * 365 * 86400 * 1_000_000_000).then(|| "reports an expiry for an entry without TTL".to_string()),
                    Some(x) => {
                        let hi = w.d as i128 - (wi - w.w_hi).max(0);
                        let lo = w.d as i128 - (wr - w.w_lo).max(0);
                        ((*x as i128) > hi || (*x as i128) < lo).then(|| format!("outside [{}, {}]", lo, hi))
                    }
                };
                if let Some(b) = bad {
                    o.violations.push(violk("C03", "R-wall-step-ttl-misreported", op.ret_seq.unwrap(), *k, "get_ttl misreports the remaining time after the wall clock was stepped back", format!("get_ttl({}) returned {:?}: {}; ttl {} ns, written at wall [{}, {}], now [{}, {}]", k, t, b, w.d, w.w_lo, w.w_hi, wi, wr)));
                }
            }
            _ => {}
        }
    }
}

/// C05 when the wall clock is stepped back: an entry whose TTL has elapsed on the wall clock is
/// reclaimed within one bucket width plus one cleanup interval - counted from the later of
/// "the wall clock reached its deadline" and "the last backward step" (from then on the clock
/// only moves forward, and every tick sweeps all buckets up to the current second).  Judged on
/// the physical snapshot of quiescent checkpoints (creation instant and TTL as stored).
fn wall_step_reclaim_rule(h: &Hist, o: &mut OracleOut) {
    let interval = if h.plan.cfg.cleanup_ns > 0 { h.plan.cfg.cleanup_ns } else { h.plan.cfg.cleanup_ms * 1_000_000 } as i128;
    let mut steps: Vec<(u64, u64, i128)> = Vec::new(); // (seq, mono instant, skew after the step)
    let mut skew: i128 = 0;
    for op in h.ops.iter().filter(|x| x.returned()) {
        if let Op::WallStepBack { ns } = op.op {
            skew -= ns as i128;
            steps.push((op.ret_seq.unwrap(), op.ret_now, skew));
        }
        if let Op::WallStepFwd { ns } = op.op {
            skew += ns as i128;
            steps.push((op.ret_seq.unwrap(), op.ret_now, skew));
        }
    }
    if h.ops.iter().any(|x| matches!(x.op, Op::WallStepBack { .. } | Op::WallStepFwd { .. }) && !x.returned()) {
        return;
    }
    for cp in h.cps.iter().filter(|c| c.quiescent) {
        let Some(entries) = &cp.snap.entries else { continue };
        let (skew_now, last_step) = steps.iter().rev().find(|s| s.0 < cp.seq).map_or((0i128, 0u64), |s| (s.2, s.1));
        for e in entries.iter().filter(|e| e.ttl_ns > 0) {
            let deadline_wall = e.created_ns as i128 + e.ttl_ns as i128;
            let due_mono = (deadline_wall - skew_now).max(last_step as i128);
            let bound = due_mono + 1_000_000_000 + 2 * interval + 1_000_000;
            if (cp.now as i128) > bound {
                o.violations.push(violk("C05", "R-wall-step-never-reclaimed", cp.seq, e.index, "an entry whose TTL elapsed on the wall clock is still resident long after the clock was last stepped back", format!("checkpoint {} at mono {}: entry index {} created at wall {} ttl {} ns still resident; wall now {}, last backward step at mono {}, due by mono {} (cleanup interval {} ns)", cp.id, cp.now, e.index, e.created_ns, e.ttl_ns, cp.now as i128 + skew_now, last_step, bound, interval)));
            } else {
                *o.probes.entry("wall_step_resident_ttl_entry_judged".to_string()).or_default() += 1;
            }
        }
    }
}

/// Panics and stuck tasks, attributed to the property that owns the operation involved.
fn engine_rules(h: &Hist, out: &Outcome, o: &mut OracleOut) {
    for (name, st) in &out.tasks {
        if let Some(msg) = st.strip_prefix("panicked:") {
            let worker = name.starts_with("processor") || name.starts_with("policy_worker");
            o.violations.push(viol(
                "C20",
                if worker { "R-worker-panicked" } else { "R-task-panicked" },
                0,
                &format!("{} panicked: {}", if worker { name.trim_end_matches(|c: char| c == '#' || c.is_ascii_digit()) } else { "task" }, short(msg)),
                format!("task {} panicked: {}", name, msg),
            ));
            if h.ops.iter().any(|x| matches!(x.op, Op::Close)) {
                o.violations.push(viol("C12", "R-panic", 0, &format!("panic with close in the history: {}", short(msg)), format!("task {} panicked: {}", name, msg)));
            }
        }
    }
    for op in &h.ops {
        if let Some(Res::Panic(m)) = &op.res {
            let prop = match op.op {
                Op::Close => "C12",
                Op::Wait => "C10",
                _ => "C20",
            };
            o.violations.push(viol(prop, "R-op-panicked", op.inv_seq, &format!("{} panicked: {}", op.op.name(), short(m)), format!("{:?} panicked: {}", op.op, m)));
            if matches!(op.op, Op::Get { .. } | Op::GetMut { .. } | Op::GetTtl { .. }) {
                // a lookup that panics neither returns the entry nor reports it absent / its TTL
                o.violations.push(viol("C03", "R-lookup-panicked", op.inv_seq, &format!("{} panicked: {}", op.op.name(), short(m)), format!("{:?} panicked: {}", op.op, m)));
            }
            if prop != "C20" {
                o.violations.push(viol("C20", "R-op-panicked", op.inv_seq, &format!("{} panicked: {}", op.op.name(), short(m)), format!("{:?} panicked: {}", op.op, m)));
            }
        }
    }
    // a run that hit the step limit after tens of thousands of steps without a single event is a
    // livelock (e.g. a future polled for ever: an async wait group never released), not a long run
    let livelock = matches!(out.end, End::StepLimit) && out.counters.steps.saturating_sub(LAST_LOG_STEP.load(std::sync::atomic::Ordering::SeqCst)) > 50_000;
    let livelock_desc = format!("livelock: no event during the last {} scheduler steps; tasks {:?}", out.counters.steps.saturating_sub(LAST_LOG_STEP.load(std::sync::atomic::Ordering::SeqCst)), out.tasks);
    let end_view = if livelock { End::Deadlock(livelock_desc) } else { out.end.clone() };
    if let End::Stuck(desc) | End::Deadlock(desc) = &end_view {
        // a background worker that is blocked on a LOCK when the run dies will never work again:
        // nothing is swept (C05), no wait() returns (C10), the cache is not "working" (C20)
        for (name, st) in &out.tasks {
            let worker = (name.starts_with("processor") || name.starts_with("policy_worker")) && !name.contains('#');
            if worker && (st.starts_with("blocked:rwlock") || st.starts_with("blocked:mutex")) {
                for prop in ["C05", "C10", "C20"] {
                    o.violations.push(viol(prop, "R-worker-blocked-on-a-lock-forever", 0, &format!("{} blocked on a lock for ever", name), format!("{} is {} when the run ends: {}", name, st, desc)));
                }
            }
        }
    }
    match &end_view {
        End::Stuck(desc) | End::Deadlock(desc) => {
            // attribute to the operations that never returned
            let mut attributed = false;
            let close_invoked = h.ops.iter().any(|x| matches!(x.op, Op::Close));
            for op in h.ops.iter().filter(|x| !x.returned()) {
                if matches!(op.op, Op::Barrier | Op::Sleep { .. } | Op::Jump { .. }) {
                    // waiting for the others / for the clock: a consequence, not a cause
                    continue;
                }
                // an operation that never returns belongs to the property that promises its
                // return (wait: C10, close: C12, clear: C11), to C12 whenever a close() is part of
                // the history ("nothing blocks" around close), and to C20 (all operations complete)
                let mut props: Vec<&str> = vec![match op.op {
                    Op::Wait => "C10",
                    Op::Close => "C12",
                    Op::Clear => "C11",
                    _ => "C20",
                }];
                if close_invoked && !props.contains(&"C12") {
                    props.push("C12");
                }
                if !props.contains(&"C20") {
                    props.push("C20");
                }
                attributed = true;
                for prop in props {
                    o.violations.push(viol(
                        prop,
                        "R-blocked-forever",
                        op.inv_seq,
                        &format!("{} never returns{}", op.op.name(), if close_invoked && !matches!(op.op, Op::Close) { " (with a close() in the history)" } else { "" }),
                        format!("{:?} by {} invoked at seq {} never returned; run ended: {} [{}]", op.op, op.task, op.inv_seq, if matches!(out.end, End::Stuck(_)) { "stuck" } else { "deadlock" }, desc),
                    ));
                }
            }
            if !attributed {
                o.violations.push(viol("C20", "R-blocked-forever", 0, "tasks blocked with no open operation", format!("run ended blocked: {}", desc)));
            }
        }
        _ => {}
    }
    if !h.built_ok {
        o.probes.insert("build_rejected".into(), 1);
    }
}

fn short(m: &str) -> String {
    // strip numbers so that fingerprints stay stable across inputs
    let s: String = m.chars().map(|c| if c.is_ascii_digit() { '#' } else { c }).collect();
    let mut t = String::new();
    let mut last_hash = false;
    for c in s.chars() {
        if c == '#' {
            if !last_hash {
                t.push('#');
            }
            last_hash = true;
        } else {
            last_hash = false;
            t.push(c);
        }
    }
    t.chars().take(80).collect()
}
