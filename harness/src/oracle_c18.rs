//! C18(a): colliding keys stay isolated — a lock-step reference model keyed by index hash.

use crate::exec::*;
use crate::hist::*;
use crate::oracle_p::POut;
use crate::plan::*;
use std::collections::BTreeMap;

pub fn check_c18(h: &Hist) -> POut {
    let mut out = POut { violations: vec![], probes: BTreeMap::new(), nontrivial: false };
    if !h.built_ok {
        return out;
    }
    let collide = matches!(h.plan.cfg.keys, KeyMode::Collide { .. });
    // any family: a lookup never returns a value written under another key
    for o in &h.ops {
        let (k, got): (u64, Vec<Val>) = match (&o.op, &o.res) {
            (Op::Get { k, .. }, Some(Res::Got(Some((a, b, _))))) => (*k, vec![*a, *b]),
            (Op::GetMut { k, .. }, Some(Res::GotMut(Some((a, _))))) => (*k, vec![*a]),
            _ => continue,
        };
        for v in got {
            if v.key != k {
                out.violations.push(violk("C18", "R-read-other-key", o.ret_seq.unwrap(), k, "lookup of one key returned the value of another key sharing its index", format!("{}({}) returned {:?} (index {})", o.op.name(), k, v, h.index_of(k))));
            }
        }
    }
    // any family: a TTL reported for k must be explicable by some write of k itself (with forced
    // collisions another key's entry lives under the same index)
    let writes: Vec<&OpRec> = h.ops.iter().filter(|o| matches!(o.op, Op::Insert { .. } | Op::InsertIfPresent { .. })).collect();
    for g in h.ops.iter().filter(|g| matches!(g.op, Op::GetTtl { .. }) && g.returned()) {
        let (Some(k), Some(Res::Ttl(Some(t)))) = (g.op.key(), g.res.as_ref()) else { continue };
        let explained = writes.iter().filter(|w| w.op.key() == Some(k) && w.inv_seq < g.ret_seq.unwrap()).any(|w| {
            let ttl = match w.op {
                Op::Insert { ttl_ns, .. } => ttl_ns,
                _ => 0,
            };
            if ttl == 0 {
                *t == u64::MAX
            } else {
                let w_ret_now = if w.returned() { w.ret_now } else { g.ret_now };
                let lo = ttl.saturating_sub(g.ret_now.saturating_sub(w.inv_now));
                let hi = ttl.saturating_sub(g.inv_now.saturating_sub(w_ret_now.min(g.inv_now)));
                *t != u64::MAX && *t >= lo && *t <= hi
            }
        });
        *out.probes.entry("get_ttl_attributed_to_a_write_of_the_same_key").or_default() += 1;
        if !explained {
            out.violations.push(violk("C18", "R-ttl-of-other-key", g.ret_seq.unwrap(), k, if collide { "get_ttl reported a TTL that no write of this key can explain (the index is shared with a colliding key)" } else { "get_ttl reported a TTL that no write of this key can explain" }, format!("get_ttl({}) = {} at [{},{}]; writes of this key: {:?}", k, t, g.inv_now, g.ret_now, writes.iter().filter(|w| w.op.key() == Some(k)).map(|w| (w.op.clone(), w.inv_now)).collect::<Vec<_>>())));
        }
    }
    if let KeyMode::Typed { ty } = &h.plan.cfg.keys {
        typed_rules(h, ty, &mut out);
        return out;
    }
    if !h.plan.has_tag("lockstep") || !collide {
        return out;
    }
    // index -> (owner key, value)
    let mut occ: BTreeMap<u64, (u64, Val)> = BTreeMap::new();
    let mut dirty: BTreeMap<u64, u64> = BTreeMap::new();
    let mut unknown: std::collections::BTreeSet<u64> = Default::default();
    let settled = |d: u64, at: u64| d == 0 || h.quiescent_between(d, at).is_some();
    #[derive(Clone, Copy)]
    enum It {
        Op(usize),
        Cp(usize),
    }
    let mut items: Vec<(u64, It)> = h.ops.iter().enumerate().filter(|(_, o)| o.client < 90).map(|(i, o)| (o.ret_seq.unwrap_or(o.inv_seq), It::Op(i))).collect();
    items.extend(h.cps.iter().enumerate().map(|(i, c)| (c.seq, It::Cp(i))));
    items.sort_by_key(|x| x.0);
    let mut collisions_exercised = 0u64;
    for (_, it) in items {
        match it {
            It::Op(i) => {
                let o = &h.ops[i];
                if !o.returned() {
                    continue;
                }
                let Some(k) = o.op.key() else {
                    if matches!(o.op, Op::Clear) {
                        occ.clear();
                        unknown.clear();
                    }
                    continue;
                };
                let idx = h.index_of(k);
                let d = dirty.get(&idx).copied().unwrap_or(0);
                let ok_state = settled(d, o.inv_seq) && !unknown.contains(&idx);
                let owner = occ.get(&idx).cloned();
                let foreign = owner.map_or(false, |(ok, _)| ok != k);
                match (&o.op, o.res.as_ref().unwrap()) {
                    (Op::Insert { .. }, Res::Bool(true)) => {
                        if !ok_state {
                            unknown.insert(idx);
                        } else {
                            unknown.remove(&idx);
                            if foreign {
                                collisions_exercised += 1;
                                // the newcomer must come back through on_reject; the owner stays
                            } else {
                                occ.insert(idx, (k, o.val.unwrap()));
                            }
                        }
                        dirty.insert(idx, o.ret_seq.unwrap());
                    }
                    (Op::InsertIfPresent { .. }, Res::Bool(b)) => {
                        if ok_state {
                            match owner {
                                Some((ok, _)) if ok == k => {
                                    if *b {
                                        occ.insert(idx, (k, o.val.unwrap()));
                                    }
                                }
                                Some(_) => {
                                    collisions_exercised += 1;
                                    if *b {
                                        out.violations.push(violk("C18", "R-overwrote-other-key", o.ret_seq.unwrap(), k, "insert_if_present of one key updated the entry of a colliding key", format!("{:?} returned true while index {} is held by {:?}", o.op, idx, owner)));
                                    }
                                }
                                None => {}
                            }
                        } else {
                            unknown.insert(idx);
                        }
                        dirty.insert(idx, o.ret_seq.unwrap());
                    }
                    (Op::Remove { .. }, _) => {
                        if ok_state {
                            if foreign {
                                collisions_exercised += 1;
                            } else {
                                occ.remove(&idx);
                            }
                        } else {
                            unknown.insert(idx);
                        }
                        dirty.insert(idx, o.ret_seq.unwrap());
                    }
                    (Op::GetMut { write: true, .. }, Res::GotMut(Some(_))) => {
                        if ok_state && !foreign {
                            occ.insert(idx, (k, o.val.unwrap()));
                        }
                    }
                    (Op::Get { .. }, Res::Got(g)) => {
                        if ok_state {
                            check_lookup(&mut out, o, k, idx, owner, g.map(|x| x.0));
                        }
                    }
                    (Op::GetMut { write: false, .. }, Res::GotMut(g)) => {
                        if ok_state {
                            check_lookup(&mut out, o, k, idx, owner, g.map(|x| x.0));
                        }
                    }
                    (Op::GetMut { write: true, .. }, Res::GotMut(None)) => {
                        if ok_state {
                            check_lookup(&mut out, o, k, idx, owner, None);
                        }
                    }
                    (Op::GetTtl { .. }, Res::Ttl(t)) => {
                        if ok_state {
                            let mine = owner.map_or(false, |(ok, _)| ok == k);
                            if t.is_some() != mine {
                                out.violations.push(violk("C18", if mine { "R-own-entry-invisible" } else { "R-read-other-key" }, o.ret_seq.unwrap(), k, if mine { "get_ttl of the owning key returned nothing" } else { "get_ttl of one key reported the entry of a colliding key" }, format!("get_ttl({}) = {:?}; index {} held by {:?}", k, t, idx, owner)));
                            }
                        }
                    }
                    _ => {}
                }
            }
            It::Cp(ci) => {
                let cp = &h.cps[ci];
                let Some(es) = &cp.snap.entries else { continue };
                for (idx, (k, v)) in occ.iter() {
                    if unknown.contains(idx) || !settled(dirty.get(idx).copied().unwrap_or(0), cp.seq) {
                        continue;
                    }
                    match es.iter().find(|e| e.index == *idx) {
                        Some(e) if e.val.id == v.id => {}
                        other => out.violations.push(violk("C18", "R-owner-disturbed", cp.seq, *k, "the entry of a key changed or vanished through operations on a colliding key", format!("checkpoint {}: index {} should hold {:?} of key {}, store has {:?}", cp.id, idx, v, k, other.map(|e| e.val)))),
                    }
                }
                for e in es {
                    if unknown.contains(&e.index) || !settled(dirty.get(&e.index).copied().unwrap_or(0), cp.seq) {
                        continue;
                    }
                    if !occ.contains_key(&e.index) {
                        out.violations.push(violk("C18", "R-unexpected-entry", cp.seq, e.val.key, "an index the reference model has empty holds an entry", format!("checkpoint {}: index {} holds {:?}", cp.id, e.index, e.val)));
                    }
                }
            }
        }
    }
    out.nontrivial = collisions_exercised > 0;
    *out.probes.entry("operation_on_key_colliding_with_resident").or_default() += collisions_exercised;
    out
}

fn check_lookup(out: &mut POut, o: &OpRec, k: u64, idx: u64, owner: Option<(u64, Val)>, got: Option<Val>) {
    match (owner, got) {
        (Some((ok, v)), Some(g)) if ok == k => {
            if g.id != v.id {
                out.violations.push(violk("C18", "R-wrong-value", o.ret_seq.unwrap(), k, "lookup returned another value than the key's own latest one", format!("{}({}) returned {:?}, expected {:?}", o.op.name(), k, g, v)));
            }
        }
        (Some((ok, v)), None) if ok == k => {
            out.violations.push(violk("C18", "R-own-entry-invisible", o.ret_seq.unwrap(), k, "lookup of the owning key returned nothing", format!("{}({}) returned nothing, index {} holds {:?}", o.op.name(), k, idx, v)));
        }
        (Some((ok, v)), Some(g)) => {
            out.violations.push(violk("C18", "R-read-other-key", o.ret_seq.unwrap(), k, "lookup of one key returned the value of another key sharing its index", format!("{}({}) returned {:?}; index {} is held by key {} ({:?})", o.op.name(), k, g, idx, ok, v)));
        }
        (None, Some(g)) => {
            out.violations.push(violk("C18", "R-phantom", o.ret_seq.unwrap(), k, "lookup returned a value although the index is empty in the reference model", format!("{}({}) returned {:?}", o.op.name(), k, g)));
        }
        _ => {}
    }
}

fn typed_rules(h: &Hist, ty: &str, out: &mut POut) {
    // 1. the key builder: identity for integers, stable and borrow-independent for strings
    for km in &h.keymaps {
        for (k, i, c, bi, bc) in km {
            if !matches!(ty, "string" | "boxstr" | "arcstr") {
                if *i != *k || *bi != *k || *c != 0 || *bc != 0 {
                    out.violations.push(violk("C18", "R-transparent-not-identity", 0, *k, "TransparentKeyBuilder does not map an integer key to itself", format!("type {}: key {:#x} -> owned ({:#x},{:#x}) borrowed ({:#x},{:#x})", ty, k, i, c, bi, bc)));
                }
            } else if *i != *bi || *c != 1 || *bc != 1 {
                out.violations.push(violk("C18", "R-borrowed-form-hashes-differently", 0, *k, "an owned key (String, Box<String>, Arc<String>) and its borrowed form (&str, &String) map to different (index, conflict) pairs", format!("key id {}: owned index {:#x} borrowed index {:#x} conflicts agree={}", k, i, bi, c)));
            }
        }
    }
    if h.keymaps.len() >= 2 {
        let a: Vec<(u64, u64)> = h.keymaps[0].iter().map(|x| (x.0, x.1)).collect();
        let b: Vec<(u64, u64)> = h.keymaps[h.keymaps.len() - 1].iter().map(|x| (x.0, x.1)).collect();
        if a != b {
            out.violations.push(viol("C18", "R-hash-not-stable", 0, "a key mapped to different index hashes during the lifetime of one cache", format!("first {:?} last {:?}", a, b)));
        }
        let mut idx: Vec<u64> = a.iter().map(|x| x.1).collect();
        idx.sort();
        idx.dedup();
        if idx.len() != a.len() {
            out.violations.push(viol("C18", "R-distinct-keys-collide", 0, "distinct keys of the universe share an index hash", format!("{:?}", a)));
        }
    }
    // 2. the exact-map oracle on this key type
    let t = crate::oracle_ttl::check_ttl(h, &["C03", "C04"]);
    for v in t.violations {
        let mut w = v.clone();
        w.prop = "C18".into();
        w.rule = format!("R-typed-{}", v.rule.trim_start_matches("R-"));
        w.fingerprint = format!("key type {}: {}", ty, v.fingerprint);
        out.violations.push(w);
    }
    out.nontrivial |= t.nontrivial || h.ops.len() > 4;
    *out.probes.entry(if matches!(ty, "string" | "boxstr" | "arcstr") { "string_key_run" } else if ty.starts_with('i') { "signed_integer_key_run" } else { "unsigned_integer_key_run" }).or_default() += 1;
    if h.plan.universe.iter().any(|k| (*k as i64) < 0) && ty.starts_with('i') {
        *out.probes.entry("negative_key_used").or_default() += 1;
    }
}
