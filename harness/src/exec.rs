//! Executes a plan inside the simulator and records the history.

use crate::plan::*;
use serde::{Deserialize, Serialize};
use std::hash::{BuildHasher, Hash, Hasher};
use std::panic::{catch_unwind, AssertUnwindSafe};
use std::sync::atomic::{AtomicUsize, Ordering};
use std::sync::{Arc, Mutex};
use std::time::Duration;
#[cfg(feature = "async_flavour")]
use stretto::{AsyncCache, AsyncCacheBuilder};
#[cfg(feature = "sync_flavour")]
use stretto::{Cache, CacheBuilder};
use stretto::{CacheCallback, Coster, Item, KeyBuilder, UpdateValidator};
use stretto_sim_rt::obs::Obs;
use stretto_sim_rt::rt;

// ------------------------------------------------------------------------------------------
// Values, hasher, key builder, callbacks
// ------------------------------------------------------------------------------------------

#[derive(Serialize, Deserialize, Clone, Copy, Debug, PartialEq, Eq)]
pub struct Val {
    pub id: u64,
    pub key: u64,
    pub size: u32,
}

#[derive(Clone)]
pub struct SeedState(pub u64);

pub struct SeedHasher(u64);

impl Hasher for SeedHasher {
    fn finish(&self) -> u64 {
        let mut z = self.0;
        z = (z ^ (z >> 30)).wrapping_mul(0xBF58476D1CE4E5B9);
        z = (z ^ (z >> 27)).wrapping_mul(0x94D049BB133111EB);
        z ^ (z >> 31)
    }
    fn write(&mut self, bytes: &[u8]) {
        for b in bytes {
            self.0 = (self.0 ^ (*b as u64)).wrapping_mul(0x100000001b3);
        }
    }
    fn write_u64(&mut self, i: u64) {
        self.0 = (self.0 ^ i).wrapping_mul(0x9E3779B97F4A7C15).rotate_left(23);
    }
    fn write_i64(&mut self, i: i64) {
        self.write_u64(i as u64)
    }
}

impl BuildHasher for SeedState {
    type Hasher = SeedHasher;
    fn build_hasher(&self) -> SeedHasher {
        SeedHasher(self.0 ^ 0xcbf29ce484222325)
    }
}

/// Captures the u64 a key hashes (our keys are u64).
struct Capture(u64);
impl Hasher for Capture {
    fn finish(&self) -> u64 {
        self.0
    }
    fn write(&mut self, bytes: &[u8]) {
        let mut d = [0u8; 8];
        let n = bytes.len().min(8);
        d[..n].copy_from_slice(&bytes[..n]);
        self.0 = u64::from_ne_bytes(d);
    }
    fn write_u64(&mut self, i: u64) {
        self.0 = i;
    }
}

pub fn mix(k: u64) -> u64 {
    let mut x = k;
    rt::splitmix64(&mut x)
}

pub struct HKb(pub KeyMode);

impl HKb {
    pub fn of(&self, k: u64) -> (u64, u64) {
        match self.0 {
            KeyMode::Transparent | KeyMode::Typed { .. } => (k, 0),
            // m == 0: no folding at all - every key keeps its own index but carries a non-zero conflict hash
            KeyMode::Collide { m } => (if m == 0 { k } else { k % m }, mix(k) | 1),
        }
    }
}

impl KeyBuilder for HKb {
    type Key = u64;
    fn hash_index<Q>(&self, key: &Q) -> u64
    where
        u64: core::borrow::Borrow<Q>,
        Q: Hash + Eq + ?Sized,
    {
        let mut c = Capture(0);
        key.hash(&mut c);
        self.of(c.0).0
    }
    fn hash_conflict<Q>(&self, key: &Q) -> u64
    where
        u64: core::borrow::Borrow<Q>,
        Q: Hash + Eq + ?Sized,
    {
        if KB_BUILD_KEY_ONLY.load(Ordering::SeqCst) {
            // a builder that computes its 128 bits in build_key alone and leaves this method at
            // the trait's default
            return 0;
        }
        let mut c = Capture(0);
        key.hash(&mut c);
        self.of(c.0).1
    }
    fn build_key<Q>(&self, key: &Q) -> (u64, u64)
    where
        u64: core::borrow::Borrow<Q>,
        Q: Hash + Eq + ?Sized,
    {
        let mut c = Capture(0);
        key.hash(&mut c);
        self.of(c.0)
    }
}

/// the key builder of this run overrides `build_key` only (Cfg::kb_build_key_only)
pub static KB_BUILD_KEY_ONLY: std::sync::atomic::AtomicBool = std::sync::atomic::AtomicBool::new(false);

pub struct HCoster(pub bool);
impl Coster for HCoster {
    type Value = Val;
    fn cost(&self, v: &Val) -> i64 {
        let c = if self.0 { v.size as i64 } else { 0 };
        log(EvKind::Coster { val: *v, cost: c });
        // a coster may look at the cache too (same re-entrancy as the callbacks)
        reenter(&Some(*v));
        c
    }
}

/// consultations answered so far by the stateful validator (one process per run)
pub static TOGGLE_CALLS: std::sync::atomic::AtomicU64 = std::sync::atomic::AtomicU64::new(0);

pub struct HValidator(pub Validator);
impl UpdateValidator for HValidator {
    type Value = Val;
    fn should_update(&self, prev: &Val, curr: &Val) -> bool {
        let ok = match self.0 {
            Validator::Always => true,
            Validator::Mod { m, r } => (prev.id + curr.id) % m != r,
            Validator::Toggle => TOGGLE_CALLS.fetch_add(1, Ordering::SeqCst) % 2 == 0,
        };
        log(EvKind::Validate { prev: *prev, curr: *curr, ok });
        ok
    }
}

#[derive(Serialize, Deserialize, Clone, Copy, Debug, PartialEq, Eq)]
pub enum CbKind {
    Exit,
    Evict,
    Reject,
}

fn mask_item(mut item: Item<Val>) -> Item<Val> {
    if MASK_CONFLICT.load(Ordering::SeqCst) {
        item.conflict = 0;
    }
    item
}

pub struct HCallbackFull;
impl CacheCallback for HCallbackFull {
    type Value = Val;
    fn on_exit(&self, val: Option<Val>) {
        log(EvKind::Cb { kind: CbKind::Exit, val, index: 0, conflict: 0, cost: 0, created_ns: 0, ttl_ns: 0 });
        reenter(&val);
    }
    fn on_evict(&self, item: Item<Val>) {
        let (c, t) = item.exp.verif_parts();
        let item = mask_item(item);
        log(EvKind::Cb { kind: CbKind::Evict, val: item.val, index: item.index, conflict: item.conflict, cost: item.cost, created_ns: c, ttl_ns: t });
        reenter(&item.val);
    }
    fn on_reject(&self, item: Item<Val>) {
        let (c, t) = item.exp.verif_parts();
        let item = mask_item(item);
        log(EvKind::Cb { kind: CbKind::Reject, val: item.val, index: item.index, conflict: item.conflict, cost: item.cost, created_ns: c, ttl_ns: t });
        reenter(&item.val);
    }
}

pub struct HCallbackExitOnly;
impl CacheCallback for HCallbackExitOnly {
    type Value = Val;
    fn on_exit(&self, val: Option<Val>) {
        log(EvKind::Cb { kind: CbKind::Exit, val, index: 0, conflict: 0, cost: 0, created_ns: 0, ttl_ns: 0 });
        reenter(&val);
    }
}

pub struct HCallbackExitEvict;
impl CacheCallback for HCallbackExitEvict {
    type Value = Val;
    fn on_exit(&self, val: Option<Val>) {
        log(EvKind::Cb { kind: CbKind::Exit, val, index: 0, conflict: 0, cost: 0, created_ns: 0, ttl_ns: 0 });
        reenter(&val);
    }
    fn on_evict(&self, item: Item<Val>) {
        let (c, t) = item.exp.verif_parts();
        let item = mask_item(item);
        log(EvKind::Cb { kind: CbKind::Evict, val: item.val, index: item.index, conflict: item.conflict, cost: item.cost, created_ns: c, ttl_ns: t });
        reenter(&item.val);
    }
}

pub enum HCallback {
    /// the decoy cache's callback: says nothing
    Silent,
    Full(HCallbackFull),
    ExitOnly(HCallbackExitOnly),
    ExitEvict(HCallbackExitEvict),
}
impl CacheCallback for HCallback {
    type Value = Val;
    fn on_exit(&self, val: Option<Val>) {
        match self {
            HCallback::Silent => {}
            HCallback::Full(c) => c.on_exit(val),
            HCallback::ExitOnly(c) => c.on_exit(val),
            HCallback::ExitEvict(c) => c.on_exit(val),
        }
    }
    fn on_evict(&self, item: Item<Val>) {
        match self {
            HCallback::Silent => {}
            HCallback::Full(c) => {
                c.on_evict(item);
                decoy_roundtrip_from_callback();
            }
            HCallback::ExitOnly(c) => c.on_evict(item),
            HCallback::ExitEvict(c) => c.on_evict(item),
        }
    }
    fn on_reject(&self, item: Item<Val>) {
        match self {
            HCallback::Silent => {}
            HCallback::Full(c) => c.on_reject(item),
            HCallback::ExitOnly(c) => c.on_reject(item),
            HCallback::ExitEvict(c) => c.on_reject(item),
        }
    }
}

// ------------------------------------------------------------------------------------------
// Event log
// ------------------------------------------------------------------------------------------

#[derive(Serialize, Deserialize, Clone, Debug, PartialEq)]
pub enum Res {
    Bool(bool),
    Unit,
    Err(String),
    /// lookup: value at acquisition, value at release, remaining ttl at acquisition (u64::MAX = none)
    Got(Option<(Val, Val, u64)>),
    /// get_mut: previous value, value left behind
    GotMut(Option<(Val, Val)>),
    Ttl(Option<u64>),
    Num(i64),
    Panic(String),
    /// the operation's future was dropped before it completed (Op::CancelNext)
    Cancelled,
}

#[derive(Serialize, Deserialize, Clone, Debug, Default)]
pub struct MetricsSnap {
    pub hits: u64,
    pub misses: u64,
    pub keys_added: u64,
    pub keys_updated: u64,
    pub keys_evicted: u64,
    pub cost_added: u64,
    pub cost_evicted: u64,
    pub sets_dropped: u64,
    pub sets_rejected: u64,
    pub gets_dropped: u64,
    pub gets_kept: u64,
    pub ratio: f64,
    pub life_count: u64,
    pub life_bucket_sum: u64,
    /// the other read-out surfaces of the same counters: (surface, field name, value) from
    /// `Display` and from the serde serialisation
    #[serde(default)]
    pub readouts: Vec<(String, String, u64)>,
}

#[derive(Serialize, Deserialize, Clone, Debug)]
pub struct EntrySnap {
    pub index: u64,
    pub conflict: u64,
    pub val: Val,
    pub created_ns: u64,
    pub ttl_ns: u64,
}

#[derive(Serialize, Deserialize, Clone, Debug)]
pub struct Snap {
    pub entries: Option<Vec<EntrySnap>>,
    pub policy: Option<(i64, i64, Vec<(u64, i64)>)>,
    pub buckets: Option<Vec<(i64, Vec<(u64, u64)>)>>,
    pub estimates: Option<Vec<(u64, i64)>>,
    pub insert_buf_len: usize,
    pub policy_queue_len: usize,
    pub item_size: usize,
    pub is_closed: bool,
    pub policy_closed: bool,
    pub len: usize,
    pub max_cost_api: i64,
    pub metrics: Option<MetricsSnap>,
    pub tasks: Vec<(String, String)>,
}

#[derive(Serialize, Deserialize, Clone, Debug)]
pub enum ObsEv {
    AddEnter { key: u64, cost: i64, max_cost: i64, used: i64, key_costs: Vec<(u64, i64)>, inc_est: i64 },
    AddRound { room: i64, sample: Vec<(u64, i64, i64)> },
    AddExit { key: u64, cost: i64, added: bool, victims: Option<Vec<(u64, i64)>>, max_cost: i64, used: i64, key_costs: Vec<(u64, i64)> },
    Push { keys: Vec<u64>, kept: bool, queue_len: usize, closed: bool },
    Applied { keys: Vec<u64> },
    CostUpdate { key: u64, prev: i64, cost: i64 },
    PolicyCleared,
    TickTaken { due_ns: u64 },
}

#[derive(Serialize, Deserialize, Clone, Debug)]
pub enum EvKind {
    Inv { client: usize, idx: usize, op: Op, val: Option<Val> },
    Ret { client: usize, idx: usize, res: Res },
    Cb { kind: CbKind, val: Option<Val>, index: u64, conflict: u64, cost: i64, created_ns: u64, ttl_ns: u64 },
    Coster { val: Val, cost: i64 },
    Validate { prev: Val, curr: Val, ok: bool },
    Obs(ObsEv),
    Checkpoint { id: usize, snap: Snap, quiescent: bool },
    Built { ok: bool, err: String, item_size: usize },
    /// (key, index, conflict through the owned form, index and conflict through the borrowed form)
    KeyMap(Vec<(u64, u64, u64, u64, u64)>),
    Note(String),
}

#[derive(Serialize, Deserialize, Clone, Debug)]
pub struct Ev {
    pub seq: u64,
    pub now: u64,
    pub task: String,
    pub kind: EvKind,
}

static LOG: Mutex<Vec<Ev>> = Mutex::new(Vec::new());

/// scheduler step at which the latest event was logged (livelock detection)
pub static LAST_LOG_STEP: std::sync::atomic::AtomicU64 = std::sync::atomic::AtomicU64::new(0);

/// handle for callbacks that call back into the cache under test (Cfg::reentrant_cb)
pub static MAIN_API: Mutex<Option<Box<dyn Api>>> = Mutex::new(None);

/// From inside a callback: read the TTL of the value's key on the same cache (takes the shard's
/// read lock, touches neither metrics nor the lookup ring, so no oracle sees it).  If the library
/// called us while holding that shard's lock, this never returns.
fn reenter(val: &Option<Val>) {
    let Some(v) = val else { return };
    let a = MAIN_API.lock().unwrap_or_else(|e| e.into_inner()).as_ref().map(|a| a.clone_box());
    if let Some(a) = a {
        let _ = a.get_ttl(v.key);
    }
}

/// keys of the decoy cache (a second cache in the same process) live far away from every plan's keys
pub const DECOY_BASE: u64 = 0x7777_0000_0000_0000;
pub fn is_decoy_key(k: u64) -> bool {
    (DECOY_BASE..DECOY_BASE + (1 << 20)).contains(&k)
}
pub static DECOY: Mutex<Option<Box<dyn Api>>> = Mutex::new(None);
static DECOY_N: std::sync::atomic::AtomicU64 = std::sync::atomic::AtomicU64::new(0);
thread_local! {
    static IN_DECOY: std::cell::Cell<bool> = std::cell::Cell::new(false);
}

/// Run `f` on the decoy cache without leaving a trace in the event log.
fn with_decoy<R>(f: impl FnOnce(&dyn Api) -> R) -> Option<R> {
    let d = DECOY.lock().unwrap_or_else(|e| e.into_inner()).as_ref().map(|d| d.clone_box())?;
    IN_DECOY.with(|c| c.set(true));
    let r = f(d.as_ref());
    IN_DECOY.with(|c| c.set(false));
    Some(r)
}

/// From a callback of the cache under test (its processor thread): use the other cache the way
/// a two-tier set-up would - insert, wait, read back.  wait() on the other cache is a barrier
/// there too (C10), whichever thread calls it.
fn decoy_roundtrip_from_callback() {
    if LOCAL_EXEC.load(Ordering::SeqCst) || IS_ASYNC.load(Ordering::SeqCst) {
        return; // callbacks are synchronous: only the sync flavour can wait inside one
    }
    let n = DECOY_N.fetch_add(1, Ordering::SeqCst);
    if n >= 3 {
        return;
    }
    let k = DECOY_BASE + 1000 + n;
    let r = with_decoy(|d| {
        let ins = d.insert(k, Val { id: k, key: k, size: 1 }, 1, Duration::ZERO);
        let w = d.wait();
        let got = d.get(k, 0).map(|x| x.0.id);
        (ins, w, got)
    });
    if let Some((Ok(true), Ok(()), got)) = r {
        if got != Some(k) {
            log(EvKind::Note(format!("decoy-wait-barrier-failed: insert({}) true, wait() Ok, get -> {:?}", k, got)));
        }
    }
}

pub fn log(kind: EvKind) {
    if IN_DECOY.with(|c| c.get()) {
        return;
    }
    LAST_LOG_STEP.store(rt::STEPS.load(Ordering::SeqCst), Ordering::SeqCst);
    rt::note_progress();
    let seq = rt::next_seq();
    let now = rt::now_ns().unwrap_or(0);
    let task = rt::current_task_name();
    LOG.lock().unwrap_or_else(|e| e.into_inner()).push(Ev { seq, now, task, kind });
}

pub fn take_log() -> Vec<Ev> {
    std::mem::take(&mut *LOG.lock().unwrap_or_else(|e| e.into_inner()))
}

fn obs_sink(o: Obs) {
    // the decoy cache's workers report through the same (global) observer: drop what is theirs
    let decoy = match &o {
        Obs::AddEnter { key, .. } | Obs::AddExit { key, .. } | Obs::CostUpdate { key, .. } => is_decoy_key(*key),
        Obs::Push { keys, .. } | Obs::Applied { keys } => !keys.is_empty() && keys.iter().all(|k| is_decoy_key(*k)),
        Obs::AddRound { .. } => rt::current_task_name().contains('#'),
        _ => false,
    };
    if decoy {
        return;
    }
    let e = match o {
        Obs::AddEnter { key, cost, max_cost, used, key_costs, inc_est } => ObsEv::AddEnter { key, cost, max_cost, used, key_costs, inc_est },
        Obs::AddRound { room, sample } => ObsEv::AddRound { room, sample },
        Obs::AddExit { key, cost, added, victims, max_cost, used, key_costs } => ObsEv::AddExit { key, cost, added, victims, max_cost, used, key_costs },
        Obs::Push { keys, kept, queue_len, closed } => ObsEv::Push { keys, kept, queue_len, closed },
        Obs::Applied { keys } => ObsEv::Applied { keys },
        Obs::CostUpdate { key, prev, cost } => ObsEv::CostUpdate { key, prev, cost },
        Obs::PolicyCleared => ObsEv::PolicyCleared,
        Obs::TickTaken { due_ns } => ObsEv::TickTaken { due_ns },
    };
    log(EvKind::Obs(e));
}

// ------------------------------------------------------------------------------------------
// One API over both flavours
// ------------------------------------------------------------------------------------------

#[cfg(feature = "sync_flavour")]
pub type SyncC = Cache<u64, Val, HKb, HCoster, HValidator, HCallback, SeedState>;
#[cfg(feature = "async_flavour")]
pub type AsyncC = AsyncCache<u64, Val, HKb, HCoster, HValidator, HCallback, SeedState>;

pub trait Api: Send + Sync {
    fn insert(&self, k: u64, v: Val, cost: i64, ttl: Duration) -> Result<bool, String>;
    fn insert_if_present(&self, k: u64, v: Val, cost: i64) -> Result<bool, String>;
    fn remove(&self, k: u64) -> Result<(), String>;
    fn get(&self, k: u64, hold: u32) -> Option<(Val, Val, u64)>;
    fn get_mut(&self, k: u64, write: Option<Val>, hold: u32) -> Option<(Val, Val)>;
    fn get_ttl(&self, k: u64) -> Option<u64>;
    fn len(&self) -> usize;
    fn is_empty(&self) -> bool;
    fn wait(&self) -> Result<(), String>;
    fn clear(&self) -> Result<(), String>;
    fn close(&self) -> Result<(), String>;
    fn update_max_cost(&self, v: i64);
    fn max_cost(&self) -> i64;
    fn snapshot(&self, keys: &[u64]) -> stretto::verif::Snapshot<Val>;
    fn metrics(&self) -> Option<MetricsSnap>;
    fn metrics_reset(&self);
    fn clone_box(&self) -> Box<dyn Api>;
    /// (index, conflict) the cache's key builder assigns; `borrowed` asks through the borrowed form
    fn key_hash(&self, k: u64, borrowed: bool) -> (u64, u64);
}

/// TTL of an insert operation: nanoseconds, except for the four largest codes, which stand for
/// durations no `u64` of nanoseconds can hold (584 years).
pub fn dur_of_ttl(ttl_ns: u64) -> Duration {
    match u64::MAX - ttl_ns {
        0 => Duration::MAX,
        1 => Duration::from_secs(u64::MAX - 1),
        2 => Duration::from_secs(i64::MAX as u64),
        3 => Duration::from_secs(u64::MAX / 2),
        _ => Duration::from_nanos(ttl_ns),
    }
}

fn dur_ns(d: Duration) -> u64 {
    if d == Duration::MAX {
        u64::MAX
    } else {
        d.as_nanos().min(u64::MAX as u128 - 1) as u64
    }
}

fn metrics_of(m: &stretto::Metrics) -> Option<MetricsSnap> {
    if !m.is_op() {
        return None;
    }
    let h = m.life_expectancy_seconds().unwrap();
    let hs = format!("{}", h);
    // Histogram exposes count/sum only through Display; parse "count: N" if present
    let (life_count, life_bucket_sum) = parse_hist(&hs);
    Some(MetricsSnap {
        hits: m.get_hits().unwrap(),
        misses: m.get_misses().unwrap(),
        keys_added: m.get_keys_added().unwrap(),
        keys_updated: m.get_keys_updated().unwrap(),
        keys_evicted: m.get_keys_evicted().unwrap(),
        cost_added: m.get_cost_added().unwrap(),
        cost_evicted: m.get_cost_evicted().unwrap(),
        sets_dropped: m.get_sets_dropped().unwrap(),
        sets_rejected: m.get_sets_rejected().unwrap(),
        gets_dropped: m.get_gets_dropped().unwrap(),
        gets_kept: m.get_gets_kept().unwrap(),
        ratio: m.ratio().unwrap(),
        life_count,
        life_bucket_sum,
        readouts: readouts_of(m),
    })
}

/// `Display` prints one `"name": value,` line per counter; the serde serialisation is a map.
fn readouts_of(m: &stretto::Metrics) -> Vec<(String, String, u64)> {
    let mut out = Vec::new();
    for l in format!("{}", m).lines() {
        let l = l.trim().trim_end_matches(',');
        if let Some((name, val)) = l.split_once(": ") {
            if let Ok(v) = val.trim().parse::<u64>() {
                out.push(("display".to_string(), name.trim_matches('"').to_string(), v));
            }
        }
    }
    if let stretto::Metrics::Op(inner) = m {
        if let Ok(serde_json::Value::Object(map)) = serde_json::to_value(inner) {
            for (k, v) in map {
                if let Some(n) = v.as_u64() {
                    out.push(("serde".to_string(), k, n));
                }
            }
        }
    }
    out
}

fn parse_hist(s: &str) -> (u64, u64) {
    // Display format of stretto::Histogram (histogram.rs): lines "[lo, hi) n pct" then
    // " --\n min -- ... count: N". We parse conservatively; (0,0) when absent.
    let mut count = 0u64;
    let mut sum = 0u64;
    for part in s.split_whitespace().collect::<Vec<_>>().windows(2) {
        if part[0] == "count:" || part[0] == "Count:" {
            count = part[1].trim_matches(|c: char| !c.is_ascii_digit()).parse().unwrap_or(0);
        }
    }
    for line in s.lines() {
        let l = line.trim();
        if l.starts_with('[') {
            // "[a, b) n p%"
            if let Some(rest) = l.split(')').nth(1) {
                if let Some(n) = rest.split_whitespace().next() {
                    sum += n.parse::<u64>().unwrap_or(0);
                }
            }
        }
    }
    (count, sum)
}

macro_rules! snapshot_impl {
    () => {
        fn snapshot(&self, keys: &[u64]) -> stretto::verif::Snapshot<Val> {
            self.verif_snapshot(keys)
        }
        fn metrics(&self) -> Option<MetricsSnap> {
            metrics_of(&self.metrics)
        }
        fn metrics_reset(&self) {
            self.metrics.clear()
        }
        fn update_max_cost(&self, v: i64) {
            SelfTy::update_max_cost(self, v)
        }
        fn max_cost(&self) -> i64 {
            SelfTy::max_cost(self)
        }
        fn len(&self) -> usize {
            SelfTy::len(self)
        }
        fn is_empty(&self) -> bool {
            SelfTy::is_empty(self)
        }
        fn get_ttl(&self, k: u64) -> Option<u64> {
            SelfTy::get_ttl(self, &k).map(dur_ns)
        }
        fn key_hash(&self, k: u64, _borrowed: bool) -> (u64, u64) {
            self.verif_key_hash(&k)
        }
    };
}

pub static LOCAL_EXEC: std::sync::atomic::AtomicBool = std::sync::atomic::AtomicBool::new(false);
pub static IS_ASYNC: std::sync::atomic::AtomicBool = std::sync::atomic::AtomicBool::new(false);
/// the insert buffer is roomy enough for `remove()` (which unwraps try_remove's full-buffer error)
pub static PLAIN_REMOVE_OK: std::sync::atomic::AtomicBool = std::sync::atomic::AtomicBool::new(false);
static REMOVE_CALLS: std::sync::atomic::AtomicU64 = std::sync::atomic::AtomicU64::new(0);
static REF_CALLS: std::sync::atomic::AtomicU64 = std::sync::atomic::AtomicU64::new(0);

/// Drive a future on the executor of this run's flavour.
thread_local! {
    static CANCEL_AFTER: std::cell::Cell<Option<u32>> = std::cell::Cell::new(None);
}
const CANCELLED: &str = "\u{1}cancelled";

/// block_on for the operations that can be cancelled (remove, wait, clear of the async flavour
/// on per-task executors): honours a pending Op::CancelNext
pub fn bo_c<F: std::future::Future>(f: F) -> Option<F::Output> {
    match CANCEL_AFTER.with(|c| c.take()) {
        Some(n) if !LOCAL_EXEC.load(Ordering::SeqCst) => rt::block_on_cancel(f, n),
        _ => Some(bo(f)),
    }
}

pub fn bo<F: std::future::Future>(f: F) -> F::Output {
    if LOCAL_EXEC.load(Ordering::SeqCst) {
        stretto_sim_rt::local::block_on(f)
    } else {
        rt::block_on(f)
    }
}

thread_local! {
    /// key of the lookup this client is executing (whose reference it may be holding)
    static CUR_LOOKUP_KEY: std::cell::Cell<Option<u64>> = std::cell::Cell::new(None);
}

thread_local! {
    /// what the current client does while it holds its next reference (Op::WhileHolding)
    static HOLD_ACTION: std::cell::RefCell<Option<Box<dyn FnOnce()>>> = std::cell::RefCell::new(None);
}

fn hold_points(n: u32) {
    for _ in 0..n {
        rt::yield_now();
    }
    let act = HOLD_ACTION.with(|a| a.borrow_mut().take());
    if let Some(f) = act {
        f();
        for _ in 0..n {
            rt::yield_now();
        }
    }
}

#[cfg(feature = "sync_flavour")]
mod sync_impl {
    use super::*;
    type SelfTy = SyncC;
    impl Api for SyncC {
        // every public spelling of an insert is used (chosen by the value id): the `try_` forms
        // and the panicking shorthands, `insert` and `insert_with_ttl(.., ZERO)`
        fn insert(&self, k: u64, v: Val, cost: i64, ttl: Duration) -> Result<bool, String> {
            match (ttl.is_zero(), v.id % 4) {
                (true, 0) => self.try_insert(k, v, cost).map_err(|e| e.to_string()),
                (true, 1) => Ok(SelfTy::insert(self, k, v, cost)),
                (true, 2) => self.try_insert_with_ttl(k, v, cost, Duration::ZERO).map_err(|e| e.to_string()),
                (true, _) => Ok(self.insert_with_ttl(k, v, cost, Duration::ZERO)),
                (false, 0) | (false, 2) => self.try_insert_with_ttl(k, v, cost, ttl).map_err(|e| e.to_string()),
                (false, _) => Ok(self.insert_with_ttl(k, v, cost, ttl)),
            }
        }
        fn insert_if_present(&self, k: u64, v: Val, cost: i64) -> Result<bool, String> {
            if v.id % 2 == 0 {
                self.try_insert_if_present(k, v, cost).map_err(|e| e.to_string())
            } else {
                Ok(SelfTy::insert_if_present(self, k, v, cost))
            }
        }
        fn remove(&self, k: u64) -> Result<(), String> {
            // the panicking shorthand too, where the buffer cannot be full (it unwraps the
            // full-buffer error of try_remove)
            if PLAIN_REMOVE_OK.load(Ordering::SeqCst) && REMOVE_CALLS.fetch_add(1, Ordering::SeqCst) % 2 == 1 {
                SelfTy::remove(self, &k);
                Ok(())
            } else {
                self.try_remove(&k).map_err(|e| e.to_string())
            }
        }
        fn get(&self, k: u64, hold: u32) -> Option<(Val, Val, u64)> {
            let r = SelfTy::get(self, &k)?;
            // every way of reading through the reference is used in turn
            let sel = REF_CALLS.fetch_add(1, Ordering::SeqCst) % 4;
            let first = match sel {
                0 => *r.value(),
                1 => *r.as_ref(),
                2 => *r.value(),
                _ => {
                    // Debug must not disturb anything (it prints the whole store item; its text is
                    // not part of any property)
                    let _ = format!("{:?}", r);
                    *r.value()
                }
            };
            let ttl = dur_ns(r.ttl());
            hold_points(hold);
            let last = match sel {
                2 => r.read(), // consumes and releases
                1 => {
                    let v = *r.as_ref();
                    drop(r);
                    v
                }
                _ => {
                    let v = *r.value();
                    r.release();
                    v
                }
            };
            Some((first, last, ttl))
        }
        fn get_mut(&self, k: u64, write: Option<Val>, hold: u32) -> Option<(Val, Val)> {
            let mut r = SelfTy::get_mut(self, &k)?;
            let gsel = REF_CALLS.fetch_add(1, Ordering::SeqCst) % 3;
            let prev = match gsel {
                0 => *r.value(),
                1 => *r.as_ref(),
                _ => r.clone_inner(),
            };
            hold_points(hold);
            if let (Some(w), 0, 1) = (write, hold, gsel) {
                // write_once: writes, consumes and releases
                r.write_once(w);
                return Some((prev, w));
            }
            if let (Some(w), 0, 2) = (write, hold, gsel) {
                *r.as_mut() = w;
                let left = *r.as_ref();
                drop(r);
                return Some((prev, left));
            }
            if let Some(w) = write {
                if hold > 0 {
                    // a multi-step in-place update, as a client with a larger value would
                    // do it: nobody may see the half-written value (the reference keeps
                    // the shard locked exclusively)
                    r.value_mut().id = w.id;
                    hold_points(hold);
                    let m = r.value_mut();
                    m.key = w.key;
                    m.size = w.size;
                } else {
                    r.write(w);
                }
            }
            let left = *r.value();
            r.release();
            Some((prev, left))
        }
        fn wait(&self) -> Result<(), String> {
            SelfTy::wait(self).map_err(|e| e.to_string())
        }
        fn clear(&self) -> Result<(), String> {
            SelfTy::clear(self).map_err(|e| e.to_string())
        }
        fn close(&self) -> Result<(), String> {
            SelfTy::close(self).map_err(|e| e.to_string())
        }
        fn clone_box(&self) -> Box<dyn Api> {
            Box::new(self.clone())
        }
        snapshot_impl!();
    }
}

#[cfg(feature = "async_flavour")]
mod async_impl {
    use super::*;
    type SelfTy = AsyncC;
    impl Api for AsyncC {
        fn insert(&self, k: u64, v: Val, cost: i64, ttl: Duration) -> Result<bool, String> {
            match (ttl.is_zero(), v.id % 4) {
                (true, 0) => bo(self.try_insert(k, v, cost)).map_err(|e| e.to_string()),
                (true, 1) => Ok(bo(SelfTy::insert(self, k, v, cost))),
                (true, 2) => bo(self.try_insert_with_ttl(k, v, cost, Duration::ZERO)).map_err(|e| e.to_string()),
                (true, _) => Ok(bo(self.insert_with_ttl(k, v, cost, Duration::ZERO))),
                (false, 0) | (false, 2) => bo(self.try_insert_with_ttl(k, v, cost, ttl)).map_err(|e| e.to_string()),
                (false, _) => Ok(bo(self.insert_with_ttl(k, v, cost, ttl))),
            }
        }
        fn insert_if_present(&self, k: u64, v: Val, cost: i64) -> Result<bool, String> {
            if v.id % 2 == 0 {
                bo(self.try_insert_if_present(k, v, cost)).map_err(|e| e.to_string())
            } else {
                Ok(bo(SelfTy::insert_if_present(self, k, v, cost)))
            }
        }
        fn remove(&self, k: u64) -> Result<(), String> {
            if PLAIN_REMOVE_OK.load(Ordering::SeqCst) && REMOVE_CALLS.fetch_add(1, Ordering::SeqCst) % 2 == 1 {
                return match bo_c(SelfTy::remove(self, &k)) {
                    Some(()) => Ok(()),
                    None => Err(CANCELLED.into()),
                };
            }
            match bo_c(self.try_remove(&k)) {
                Some(r) => r.map_err(|e| e.to_string()),
                None => Err(CANCELLED.into()),
            }
        }
        fn get(&self, k: u64, hold: u32) -> Option<(Val, Val, u64)> {
            let r = bo(SelfTy::get(self, &k))?;
            // every way of reading through the reference is used in turn
            let sel = REF_CALLS.fetch_add(1, Ordering::SeqCst) % 4;
            let first = match sel {
                0 => *r.value(),
                1 => *r.as_ref(),
                2 => *r.value(),
                _ => {
                    // Debug must not disturb anything (it prints the whole store item; its text is
                    // not part of any property)
                    let _ = format!("{:?}", r);
                    *r.value()
                }
            };
            let ttl = dur_ns(r.ttl());
            hold_points(hold);
            let last = match sel {
                2 => r.read(), // consumes and releases
                1 => {
                    let v = *r.as_ref();
                    drop(r);
                    v
                }
                _ => {
                    let v = *r.value();
                    r.release();
                    v
                }
            };
            Some((first, last, ttl))
        }
        fn get_mut(&self, k: u64, write: Option<Val>, hold: u32) -> Option<(Val, Val)> {
            let mut r = bo(SelfTy::get_mut(self, &k))?;
            let gsel = REF_CALLS.fetch_add(1, Ordering::SeqCst) % 3;
            let prev = match gsel {
                0 => *r.value(),
                1 => *r.as_ref(),
                _ => r.clone_inner(),
            };
            hold_points(hold);
            if let (Some(w), 0, 1) = (write, hold, gsel) {
                // write_once: writes, consumes and releases
                r.write_once(w);
                return Some((prev, w));
            }
            if let (Some(w), 0, 2) = (write, hold, gsel) {
                *r.as_mut() = w;
                let left = *r.as_ref();
                drop(r);
                return Some((prev, left));
            }
            if let Some(w) = write {
                if hold > 0 {
                    // a multi-step in-place update, as a client with a larger value would
                    // do it: nobody may see the half-written value (the reference keeps
                    // the shard locked exclusively)
                    r.value_mut().id = w.id;
                    hold_points(hold);
                    let m = r.value_mut();
                    m.key = w.key;
                    m.size = w.size;
                } else {
                    r.write(w);
                }
            }
            let left = *r.value();
            r.release();
            Some((prev, left))
        }
        fn wait(&self) -> Result<(), String> {
            match bo_c(SelfTy::wait(self)) {
                Some(r) => r.map_err(|e| e.to_string()),
                None => Err(CANCELLED.into()),
            }
        }
        fn clear(&self) -> Result<(), String> {
            match bo_c(SelfTy::clear(self)) {
                Some(r) => r.map_err(|e| e.to_string()),
                None => Err(CANCELLED.into()),
            }
        }
        fn close(&self) -> Result<(), String> {
            match bo_c(SelfTy::close(self)) {
                Some(r) => r.map_err(|e| e.to_string()),
                None => Err(CANCELLED.into()),
            }
        }
        fn clone_box(&self) -> Box<dyn Api> {
            Box::new(self.clone())
        }
        snapshot_impl!();
    }
}


// ------------------------------------------------------------------------------------------
// Real key types with the library's own key builders (C18 b)
// ------------------------------------------------------------------------------------------

pub static MASK_CONFLICT: std::sync::atomic::AtomicBool = std::sync::atomic::AtomicBool::new(false);

macro_rules! typed_api {
    ($name:ident, $cache:ident, $builder:ident, $kty:ty, $kb:ty, $mk_kb:expr, $conv:expr, $borrow:expr, [$($aw:tt)*], $fin:expr) => {
        pub struct $name(pub $cache<$kty, Val, $kb, HCoster, HValidator, HCallback, SeedState>);
        impl $name {
            pub fn build(cfg: &Cfg, cb: HCallback) -> Result<Box<dyn Api>, String> {
                let b = $builder::<$kty, Val, $kb>::new_with_key_builder(cfg.num_counters, cfg.max_cost, $mk_kb)
                    .set_buffer_size(cfg.buffer_size)
                    .set_buffer_items(cfg.buffer_items)
                    .set_metrics(cfg.metrics)
                    .set_ignore_internal_cost(cfg.ignore_internal_cost)
                    .set_cleanup_duration(Duration::from_millis(cfg.cleanup_ms))
                    .set_coster(HCoster(cfg.coster))
                    .set_update_validator(HValidator(cfg.validator.clone()))
                    .set_callback(cb)
                    .set_hasher(SeedState(cfg.hasher_seed));
                let fin = $fin;
                fin(b).map(|c| Box::new($name(c)) as Box<dyn Api>).map_err(|e| format!("{:?}", e))
            }
        }
        impl Api for $name {
            fn insert(&self, k: u64, v: Val, cost: i64, ttl: Duration) -> Result<bool, String> {
                let key: $kty = ($conv)(k);
                if ttl.is_zero() {
                    typed_api!(@w [$($aw)*] self.0.try_insert(key, v, cost)).map_err(|e| e.to_string())
                } else {
                    typed_api!(@w [$($aw)*] self.0.try_insert_with_ttl(key, v, cost, ttl)).map_err(|e| e.to_string())
                }
            }
            fn insert_if_present(&self, k: u64, v: Val, cost: i64) -> Result<bool, String> {
                let key: $kty = ($conv)(k);
                typed_api!(@w [$($aw)*] self.0.try_insert_if_present(key, v, cost)).map_err(|e| e.to_string())
            }
            fn remove(&self, k: u64) -> Result<(), String> {
                let key: $kty = ($conv)(k);
                typed_api!(@w [$($aw)*] self.0.try_remove(&key)).map_err(|e| e.to_string())
            }
            fn get(&self, k: u64, hold: u32) -> Option<(Val, Val, u64)> {
                let key: $kty = ($conv)(k);
                let r = typed_api!(@w [$($aw)*] self.0.get(($borrow)(&key)))?;
                let first = *r.value();
                let ttl = dur_ns(r.ttl());
                hold_points(hold);
                let last = *r.value();
                r.release();
                Some((first, last, ttl))
            }
            fn get_mut(&self, k: u64, write: Option<Val>, hold: u32) -> Option<(Val, Val)> {
                let key: $kty = ($conv)(k);
                let mut r = typed_api!(@w [$($aw)*] self.0.get_mut(($borrow)(&key)))?;
                let prev = *r.value();
                hold_points(hold);
                if let Some(w) = write {
                    if hold > 0 {
                        // a multi-step in-place update, as a client with a larger value would
                        // do it: nobody may see the half-written value (the reference keeps
                        // the shard locked exclusively)
                        r.value_mut().id = w.id;
                        hold_points(hold);
                        let m = r.value_mut();
                        m.key = w.key;
                        m.size = w.size;
                    } else {
                        r.write(w);
                    }
                }
                let left = *r.value();
                r.release();
                Some((prev, left))
            }
            fn get_ttl(&self, k: u64) -> Option<u64> {
                let key: $kty = ($conv)(k);
                self.0.get_ttl(($borrow)(&key)).map(dur_ns)
            }
            fn len(&self) -> usize {
                self.0.len()
            }
            fn is_empty(&self) -> bool {
                self.0.is_empty()
            }
            fn wait(&self) -> Result<(), String> {
                typed_api!(@w [$($aw)*] self.0.wait()).map_err(|e| e.to_string())
            }
            fn clear(&self) -> Result<(), String> {
                typed_api!(@w [$($aw)*] self.0.clear()).map_err(|e| e.to_string())
            }
            fn close(&self) -> Result<(), String> {
                typed_api!(@w [$($aw)*] self.0.close()).map_err(|e| e.to_string())
            }
            fn update_max_cost(&self, v: i64) {
                self.0.update_max_cost(v)
            }
            fn max_cost(&self) -> i64 {
                self.0.max_cost()
            }
            fn snapshot(&self, keys: &[u64]) -> stretto::verif::Snapshot<Val> {
                self.0.verif_snapshot(keys)
            }
            fn metrics(&self) -> Option<MetricsSnap> {
                metrics_of(&self.0.metrics)
            }
            fn metrics_reset(&self) {
                self.0.metrics.clear()
            }
            fn clone_box(&self) -> Box<dyn Api> {
                Box::new($name(self.0.clone()))
            }
            fn key_hash(&self, k: u64, borrowed: bool) -> (u64, u64) {
                let key: $kty = ($conv)(k);
                if borrowed {
                    self.0.verif_key_hash(($borrow)(&key))
                } else {
                    self.0.verif_key_hash(&key)
                }
            }
        }
    };
    (@w [] $e:expr) => { $e };
    (@w [async] $e:expr) => { bo($e) };
}

macro_rules! typed_int {
    ($sname:ident, $aname:ident, $t:ty) => {
        #[cfg(feature = "sync_flavour")]
        typed_api!($sname, Cache, CacheBuilder, $t, stretto::TransparentKeyBuilder<$t>, stretto::TransparentKeyBuilder::<$t>::default(), |k: u64| k as $t, |k| k, [], |b: CacheBuilder<$t, Val, stretto::TransparentKeyBuilder<$t>, HCoster, HValidator, HCallback, SeedState>| b.finalize());
        #[cfg(feature = "async_flavour")]
        typed_api!($aname, AsyncCache, AsyncCacheBuilder, $t, stretto::TransparentKeyBuilder<$t>, stretto::TransparentKeyBuilder::<$t>::default(), |k: u64| k as $t, |k| k, [async], |b: AsyncCacheBuilder<$t, Val, stretto::TransparentKeyBuilder<$t>, HCoster, HValidator, HCallback, SeedState>| b.finalize(async_spawner));
    };
}

typed_int!(TI8s, TI8a, i8);
typed_int!(TI16s, TI16a, i16);
typed_int!(TI32s, TI32a, i32);
typed_int!(TI64s, TI64a, i64);
typed_int!(TIszs, TIsza, isize);
typed_int!(TU8s, TU8a, u8);
typed_int!(TU16s, TU16a, u16);
typed_int!(TU32s, TU32a, u32);
typed_int!(TU64s, TU64a, u64);
typed_int!(TUszs, TUsza, usize);

fn borrow_str(k: &String) -> &str {
    k.as_str()
}

fn str_key(k: u64) -> String {
    // a few shapes: short, long (> 8 bytes), shared prefixes
    match k % 4 {
        0 => format!("k{}", k),
        1 => format!("a-rather-long-key-with-a-shared-prefix-{}", k),
        2 => format!("{}", k),
        _ => format!("키-{}-ключ", k),
    }
}
fn box_key(k: u64) -> Box<String> {
    Box::new(str_key(k))
}
#[allow(clippy::borrowed_box)]
fn borrow_box(k: &Box<String>) -> &String {
    k
}
fn arc_key(k: u64) -> std::sync::Arc<String> {
    std::sync::Arc::new(str_key(k))
}
fn borrow_arc(k: &std::sync::Arc<String>) -> &String {
    k
}
// thin-pointer key types (one machine word) looked up through the pointee
#[cfg(feature = "sync_flavour")]
typed_api!(TBoxS, Cache, CacheBuilder, Box<String>, stretto::DefaultKeyBuilder<Box<String>>, stretto::DefaultKeyBuilder::<Box<String>>::default(), box_key, borrow_box, [], |b: CacheBuilder<Box<String>, Val, stretto::DefaultKeyBuilder<Box<String>>, HCoster, HValidator, HCallback, SeedState>| b.finalize());
#[cfg(feature = "async_flavour")]
typed_api!(TBoxA, AsyncCache, AsyncCacheBuilder, Box<String>, stretto::DefaultKeyBuilder<Box<String>>, stretto::DefaultKeyBuilder::<Box<String>>::default(), box_key, borrow_box, [async], |b: AsyncCacheBuilder<Box<String>, Val, stretto::DefaultKeyBuilder<Box<String>>, HCoster, HValidator, HCallback, SeedState>| b.finalize(async_spawner));
#[cfg(feature = "sync_flavour")]
typed_api!(TArcS, Cache, CacheBuilder, std::sync::Arc<String>, stretto::DefaultKeyBuilder<std::sync::Arc<String>>, stretto::DefaultKeyBuilder::<std::sync::Arc<String>>::default(), arc_key, borrow_arc, [], |b: CacheBuilder<std::sync::Arc<String>, Val, stretto::DefaultKeyBuilder<std::sync::Arc<String>>, HCoster, HValidator, HCallback, SeedState>| b.finalize());
#[cfg(feature = "async_flavour")]
typed_api!(TArcA, AsyncCache, AsyncCacheBuilder, std::sync::Arc<String>, stretto::DefaultKeyBuilder<std::sync::Arc<String>>, stretto::DefaultKeyBuilder::<std::sync::Arc<String>>::default(), arc_key, borrow_arc, [async], |b: AsyncCacheBuilder<std::sync::Arc<String>, Val, stretto::DefaultKeyBuilder<std::sync::Arc<String>>, HCoster, HValidator, HCallback, SeedState>| b.finalize(async_spawner));
#[cfg(feature = "sync_flavour")]
typed_api!(TStrS, Cache, CacheBuilder, String, stretto::DefaultKeyBuilder<String>, stretto::DefaultKeyBuilder::<String>::default(), str_key, borrow_str, [], |b: CacheBuilder<String, Val, stretto::DefaultKeyBuilder<String>, HCoster, HValidator, HCallback, SeedState>| b.finalize());
#[cfg(feature = "async_flavour")]
typed_api!(TStrA, AsyncCache, AsyncCacheBuilder, String, stretto::DefaultKeyBuilder<String>, stretto::DefaultKeyBuilder::<String>::default(), str_key, borrow_str, [async], |b: AsyncCacheBuilder<String, Val, stretto::DefaultKeyBuilder<String>, HCoster, HValidator, HCallback, SeedState>| b.finalize(async_spawner));

fn build_typed(cfg: &Cfg, ty: &str, cb: HCallback) -> Result<Box<dyn Api>, String> {
    let s = cfg.flavor == Flavor::Sync;
    LOCAL_EXEC.store(cfg.flavor == Flavor::AsyncLocal, Ordering::SeqCst);
    stretto_sim_rt::local::reset();
    MASK_CONFLICT.store(matches!(ty, "string" | "boxstr" | "arcstr"), Ordering::SeqCst);
    match (ty, s) {
        #[cfg(feature = "sync_flavour")]
        ("i8", true) => TI8s::build(cfg, cb),
        #[cfg(feature = "async_flavour")]
        ("i8", false) => TI8a::build(cfg, cb),
        #[cfg(feature = "sync_flavour")]
        ("i16", true) => TI16s::build(cfg, cb),
        #[cfg(feature = "async_flavour")]
        ("i16", false) => TI16a::build(cfg, cb),
        #[cfg(feature = "sync_flavour")]
        ("i32", true) => TI32s::build(cfg, cb),
        #[cfg(feature = "async_flavour")]
        ("i32", false) => TI32a::build(cfg, cb),
        #[cfg(feature = "sync_flavour")]
        ("i64", true) => TI64s::build(cfg, cb),
        #[cfg(feature = "async_flavour")]
        ("i64", false) => TI64a::build(cfg, cb),
        #[cfg(feature = "sync_flavour")]
        ("isize", true) => TIszs::build(cfg, cb),
        #[cfg(feature = "async_flavour")]
        ("isize", false) => TIsza::build(cfg, cb),
        #[cfg(feature = "sync_flavour")]
        ("u8", true) => TU8s::build(cfg, cb),
        #[cfg(feature = "async_flavour")]
        ("u8", false) => TU8a::build(cfg, cb),
        #[cfg(feature = "sync_flavour")]
        ("u16", true) => TU16s::build(cfg, cb),
        #[cfg(feature = "async_flavour")]
        ("u16", false) => TU16a::build(cfg, cb),
        #[cfg(feature = "sync_flavour")]
        ("u32", true) => TU32s::build(cfg, cb),
        #[cfg(feature = "async_flavour")]
        ("u32", false) => TU32a::build(cfg, cb),
        #[cfg(feature = "sync_flavour")]
        ("u64", true) => TU64s::build(cfg, cb),
        #[cfg(feature = "async_flavour")]
        ("u64", false) => TU64a::build(cfg, cb),
        #[cfg(feature = "sync_flavour")]
        ("usize", true) => TUszs::build(cfg, cb),
        #[cfg(feature = "async_flavour")]
        ("usize", false) => TUsza::build(cfg, cb),
        #[cfg(feature = "sync_flavour")]
        ("string", true) => TStrS::build(cfg, cb),
        #[cfg(feature = "async_flavour")]
        ("string", false) => TStrA::build(cfg, cb),
        #[cfg(feature = "sync_flavour")]
        ("boxstr", true) => TBoxS::build(cfg, cb),
        #[cfg(feature = "async_flavour")]
        ("boxstr", false) => TBoxA::build(cfg, cb),
        #[cfg(feature = "sync_flavour")]
        ("arcstr", true) => TArcS::build(cfg, cb),
        #[cfg(feature = "async_flavour")]
        ("arcstr", false) => TArcA::build(cfg, cb),
        _ => Err(format!("unknown key type {}", ty)),
    }
}

#[cfg(feature = "async_flavour")]
fn async_spawner(fut: futures::future::BoxFuture<'static, ()>) {
    // the two background futures: first the policy worker, then the cache processor
    static N: AtomicUsize = AtomicUsize::new(0);
    let n = N.fetch_add(1, Ordering::SeqCst);
    let name = if n % 2 == 0 { "policy_worker" } else { "processor" };
    if LOCAL_EXEC.load(Ordering::SeqCst) {
        stretto_sim_rt::local::spawn(fut);
        return;
    }
    rt::spawn_task(name, rt::Kind::Worker, move || {
        rt::block_on(fut);
    });
}

/// A subscriber that enables every callsite and throws everything away: what matters is that the
/// library's log statements evaluate their field expressions, as they do in an application that
/// has logging switched on.
struct SinkSubscriber;
impl tracing::Subscriber for SinkSubscriber {
    fn enabled(&self, _: &tracing::Metadata<'_>) -> bool {
        true
    }
    fn new_span(&self, _: &tracing::span::Attributes<'_>) -> tracing::span::Id {
        tracing::span::Id::from_u64(1)
    }
    fn record(&self, _: &tracing::span::Id, _: &tracing::span::Record<'_>) {}
    fn record_follows_from(&self, _: &tracing::span::Id, _: &tracing::span::Id) {}
    fn event(&self, e: &tracing::Event<'_>) {
        // touch the fields the way a formatting layer would
        struct V;
        impl tracing::field::Visit for V {
            fn record_debug(&mut self, _: &tracing::field::Field, v: &dyn std::fmt::Debug) {
                let _ = format!("{:?}", v);
            }
        }
        e.record(&mut V);
    }
    fn enter(&self, _: &tracing::span::Id) {}
    fn exit(&self, _: &tracing::span::Id) {}
}

pub fn build(cfg: &Cfg) -> Result<Box<dyn Api>, String> {
    if cfg.tracing_on {
        let _ = tracing::subscriber::set_global_default(SinkSubscriber);
    }
    let kb = HKb(cfg.keys.clone());
    let cb = match cfg.callback {
        CallbackMode::Full => HCallback::Full(HCallbackFull),
        CallbackMode::ExitOnly => HCallback::ExitOnly(HCallbackExitOnly),
        CallbackMode::ExitEvict => HCallback::ExitEvict(HCallbackExitEvict),
    };
    if let KeyMode::Typed { ty } = &cfg.keys {
        return build_typed(cfg, ty, cb);
    }
    MASK_CONFLICT.store(false, Ordering::SeqCst);
    TOGGLE_CALLS.store(0, Ordering::SeqCst);
    LOCAL_EXEC.store(cfg.flavor == Flavor::AsyncLocal, Ordering::SeqCst);
    stretto_sim_rt::local::reset();
    // The builder is driven along one of four recipes (constructor and order of the setters):
    // every type-changing setter rebuilds the builder field by field, so what an earlier
    // setter stored must survive every later one.
    macro_rules! recipe {
        ($B:ident, $C:ident) => {{
            // bit 2 of the recipe: start from `Cache::builder(..)` instead of `CacheBuilder::new(..)`
            let via_cache = cfg.recipe & 4 != 0;
            let d = cfg.use_defaults;
            let ms = if cfg.cleanup_ns > 0 { Duration::from_nanos(cfg.cleanup_ns) } else { Duration::from_millis(cfg.cleanup_ms) };
            match cfg.recipe % 4 {
                0 => {
                    let mut b = $B::<u64, Val, HKb>::new_with_key_builder(cfg.num_counters, cfg.max_cost, kb);
                    if !d {
                        b = b.set_buffer_size(cfg.buffer_size).set_buffer_items(cfg.buffer_items).set_metrics(cfg.metrics).set_ignore_internal_cost(cfg.ignore_internal_cost).set_cleanup_duration(ms);
                    }
                    b.set_coster(HCoster(cfg.coster)).set_update_validator(HValidator(cfg.validator.clone())).set_callback(cb).set_hasher(SeedState(cfg.hasher_seed))
                }
                1 => {
                    // plain constructor, scalars first, every type-changing setter afterwards
                    let (n0, m0) = (cfg.num_counters.max(2) * 3, cfg.max_cost.saturating_mul(2).saturating_add(7));
                    let mut b = if via_cache { $C::<u64, Val>::builder(n0, m0) } else { $B::<u64, Val>::new(n0, m0) };
                    if !d {
                        b = b.set_cleanup_duration(ms).set_ignore_internal_cost(cfg.ignore_internal_cost).set_metrics(cfg.metrics).set_buffer_items(cfg.buffer_items).set_buffer_size(cfg.buffer_size);
                    }
                    b.set_num_counters(cfg.num_counters).set_max_cost(cfg.max_cost).set_key_builder(kb).set_coster(HCoster(cfg.coster)).set_update_validator(HValidator(cfg.validator.clone())).set_callback(cb).set_hasher(SeedState(cfg.hasher_seed))
                }
                2 => {
                    // type-changing setters first (reverse order), scalars afterwards
                    let b = if via_cache { $C::<u64, Val>::builder(cfg.num_counters, cfg.max_cost) } else { $B::<u64, Val>::new(cfg.num_counters, cfg.max_cost) };
                    let b = b.set_hasher(SeedState(cfg.hasher_seed)).set_callback(cb).set_update_validator(HValidator(cfg.validator.clone())).set_coster(HCoster(cfg.coster)).set_key_builder(kb);
                    if !d {
                        b.set_buffer_size(cfg.buffer_size).set_cleanup_duration(ms).set_metrics(cfg.metrics).set_buffer_items(cfg.buffer_items).set_ignore_internal_cost(cfg.ignore_internal_cost)
                    } else {
                        b
                    }
                }
                _ => {
                    // interleaved; counters and capacity last
                    let b = if via_cache { $C::<u64, Val>::builder(64, 1) } else { $B::<u64, Val>::new(64, 1) };
                    if !d {
                        b.set_metrics(cfg.metrics).set_hasher(SeedState(cfg.hasher_seed)).set_ignore_internal_cost(cfg.ignore_internal_cost).set_callback(cb).set_cleanup_duration(ms).set_key_builder(kb).set_buffer_size(cfg.buffer_size).set_coster(HCoster(cfg.coster)).set_buffer_items(cfg.buffer_items).set_update_validator(HValidator(cfg.validator.clone())).set_max_cost(cfg.max_cost).set_num_counters(cfg.num_counters)
                    } else {
                        b.set_hasher(SeedState(cfg.hasher_seed)).set_callback(cb).set_key_builder(kb).set_coster(HCoster(cfg.coster)).set_update_validator(HValidator(cfg.validator.clone())).set_max_cost(cfg.max_cost).set_num_counters(cfg.num_counters)
                    }
                }
            }
        }};
    }
    KB_BUILD_KEY_ONLY.store(cfg.kb_build_key_only, Ordering::SeqCst);
    #[cfg(feature = "sync_flavour")]
    if cfg.decoy {
        // a cache of ANOTHER value type is created first (and stays alive): state that depends on
        // type parameters must not leak from one instantiation of the generic code into another
        if let Ok(c) = CacheBuilder::<u64, [u64; 40], stretto::TransparentKeyBuilder<u64>>::new_with_key_builder(64, 1_000_000, stretto::TransparentKeyBuilder::default()).set_buffer_size(16).set_cleanup_duration(Duration::from_secs(3600)).set_hasher(SeedState(cfg.hasher_seed ^ 0xf0)).finalize() {
            let _ = c.insert(DECOY_BASE + 77, [7; 40], 1);
            let _ = c.wait();
            rt::rename_workers("foreign-");
            std::mem::forget(c);
        }
    }
    IS_ASYNC.store(cfg.flavor != Flavor::Sync, Ordering::SeqCst);
    PLAIN_REMOVE_OK.store(cfg.buffer_size >= 32, Ordering::SeqCst);
    REMOVE_CALLS.store(0, Ordering::SeqCst);
    REF_CALLS.store(0, Ordering::SeqCst);
    DECOY_N.store(0, Ordering::SeqCst);
    *DECOY.lock().unwrap_or_else(|e| e.into_inner()) = None;
    let main: Result<Box<dyn Api>, String> = match cfg.flavor {
        #[cfg(feature = "sync_flavour")]
        Flavor::Sync => recipe!(CacheBuilder, Cache).finalize().map(|c| Box::new(c) as Box<dyn Api>).map_err(|e| format!("{:?}", e)),
        #[cfg(not(feature = "sync_flavour"))]
        Flavor::Sync => Err("the sync flavour is not part of this build (feature set: async)".to_string()),
        #[cfg(feature = "async_flavour")]
        Flavor::Async | Flavor::AsyncLocal => recipe!(AsyncCacheBuilder, AsyncCache).finalize(async_spawner).map(|c| Box::new(c) as Box<dyn Api>).map_err(|e| format!("{:?}", e)),
        #[cfg(not(feature = "async_flavour"))]
        Flavor::Async | Flavor::AsyncLocal => Err("the async flavour is not part of this build (default feature set)".to_string()),
    };
    if cfg.decoy && main.is_ok() {
        build_decoy(cfg);
    }
    main
}

/// A second, independent cache of the same flavour in the same process (same executor thread in
/// the single-task flavour): roomy, same cleanup interval, two TTL entries of its own.
fn build_decoy(cfg: &Cfg) {
    let ms = Duration::from_millis(cfg.cleanup_ms);
    let d: Option<Box<dyn Api>> = match cfg.flavor {
        #[cfg(not(feature = "sync_flavour"))]
        Flavor::Sync => None,
        #[cfg(feature = "sync_flavour")]
        Flavor::Sync => CacheBuilder::<u64, Val, HKb>::new_with_key_builder(1000, 1_000_000, HKb(KeyMode::Transparent))
            .set_buffer_size(64)
            .set_cleanup_duration(ms)
            .set_coster(HCoster(false))
            .set_update_validator(HValidator(Validator::Always))
            .set_callback(HCallback::Silent)
            .set_hasher(SeedState(cfg.hasher_seed ^ 0xdec0))
            .finalize()
            .ok()
            .map(|c| Box::new(c) as Box<dyn Api>),
        #[cfg(not(feature = "async_flavour"))]
        _ => None,
        #[cfg(feature = "async_flavour")]
        _ => AsyncCacheBuilder::<u64, Val, HKb>::new_with_key_builder(1000, 1_000_000, HKb(KeyMode::Transparent))
            .set_buffer_size(64)
            .set_cleanup_duration(ms)
            .set_coster(HCoster(false))
            .set_update_validator(HValidator(Validator::Always))
            .set_callback(HCallback::Silent)
            .set_hasher(SeedState(cfg.hasher_seed ^ 0xdec0))
            .finalize(async_spawner)
            .ok()
            .map(|c| Box::new(c) as Box<dyn Api>),
    };
    *DECOY.lock().unwrap_or_else(|e| e.into_inner()) = d;
    with_decoy(|d| {
        for (i, ttl) in [700u64, 1900].iter().enumerate() {
            let k = DECOY_BASE + i as u64;
            let _ = d.insert(k, Val { id: k, key: k, size: 1 }, 1, Duration::from_millis(*ttl));
        }
        let _ = d.wait();
    });
}

// ------------------------------------------------------------------------------------------
// Executor
// ------------------------------------------------------------------------------------------

fn snap_of(api: &dyn Api, universe: &[u64], kb: &HKb) -> Snap {
    snap_of_q(api, universe, kb, true)
}

/// `quiescent = false`: another task may be parked while holding a shard lock, so only the
/// non-blocking snapshot is used (len and max_cost are derived from it).
fn snap_of_q(api: &dyn Api, universe: &[u64], kb: &HKb, quiescent: bool) -> Snap {
    rt::atomic(|| {
        let idx: Vec<u64> = {
            let mut v: Vec<u64> = universe.iter().map(|k| kb.of(*k).0).collect();
            v.sort();
            v.dedup();
            v
        };
        let mut s = api.snapshot(&idx);
        if MASK_CONFLICT.load(Ordering::SeqCst) {
            if let Some(es) = s.entries.as_mut() {
                for e in es.iter_mut() {
                    e.conflict = 0;
                }
            }
            if let Some(bs) = s.buckets.as_mut() {
                for (_, ks) in bs.iter_mut() {
                    for kc in ks.iter_mut() {
                        kc.1 = 0;
                    }
                }
            }
        }
        let s_len = s.entries.as_ref().map_or(0, |e| e.len());
        let s_max = s.policy.as_ref().map_or(0, |p| p.0);
        Snap {
            entries: s.entries.map(|es| {
                es.into_iter()
                    .map(|e| EntrySnap { index: e.index, conflict: e.conflict, val: e.value, created_ns: e.created_ns, ttl_ns: e.ttl_ns })
                    .collect()
            }),
            policy: s.policy,
            buckets: s.buckets,
            estimates: s.estimates,
            insert_buf_len: s.insert_buf_len,
            policy_queue_len: s.policy_queue_len,
            item_size: s.item_size,
            is_closed: s.is_closed,
            policy_closed: s.policy_closed,
            // at a quiescent point len() and is_empty() must tell the same story; a disagreement
            // is reported as an absurd length, which every rule about len() then flags
            len: if quiescent {
                let n = api.len();
                if api.is_empty() != (n == 0) {
                    usize::MAX
                } else {
                    n
                }
            } else {
                s_len
            },
            max_cost_api: if quiescent { api.max_cost() } else { s_max },
            metrics: api.metrics(),
            tasks: rt::task_states(),
        }
    })
}

pub fn do_op(api: &dyn Api, client: usize, idx: usize, op: &Op) {
    let val = match op {
        Op::Insert { k, size, .. } | Op::InsertIfPresent { k, size, .. } => Some(Val { id: val_id(client, idx), key: *k, size: *size }),
        Op::GetMut { k, write: true, size, .. } => Some(Val { id: val_id(client, idx), key: *k, size: *size }),
        _ => None,
    };
    log(EvKind::Inv { client, idx, op: op.clone(), val });
    let r = catch_unwind(AssertUnwindSafe(|| match op {
        Op::Insert { k, cost, ttl_ns, .. } => match api.insert(*k, val.unwrap(), *cost, dur_of_ttl(*ttl_ns)) {
            Ok(b) => Res::Bool(b),
            Err(e) => Res::Err(e),
        },
        Op::InsertIfPresent { k, cost, .. } => match api.insert_if_present(*k, val.unwrap(), *cost) {
            Ok(b) => Res::Bool(b),
            Err(e) => Res::Err(e),
        },
        Op::Remove { k } => match api.remove(*k) {
            Ok(()) => Res::Unit,
            Err(e) => Res::Err(e),
        },
        Op::Get { k, hold } => {
            CUR_LOOKUP_KEY.with(|c| c.set(Some(*k)));
            let r = api.get(*k, *hold);
            HOLD_ACTION.with(|h| h.borrow_mut().take());
            Res::Got(r)
        }
        Op::GetMut { k, hold, .. } => {
            CUR_LOOKUP_KEY.with(|c| c.set(Some(*k)));
            let r = api.get_mut(*k, val, *hold);
            HOLD_ACTION.with(|h| h.borrow_mut().take());
            Res::GotMut(r)
        }
        Op::GetTtl { k } => Res::Ttl(api.get_ttl(*k)),
        Op::Len => Res::Num(api.len() as i64),
        Op::Wait => match api.wait() {
            Ok(()) => Res::Unit,
            Err(e) => Res::Err(e),
        },
        Op::Clear => match api.clear() {
            Ok(()) => Res::Unit,
            Err(e) => Res::Err(e),
        },
        Op::Close => match api.close() {
            Ok(()) => Res::Unit,
            Err(e) => Res::Err(e),
        },
        Op::UpdateMaxCost { v } => {
            api.update_max_cost(*v);
            Res::Unit
        }
        Op::MaxCost => Res::Num(api.max_cost()),
        Op::Sleep { ns } => {
            if LOCAL_EXEC.load(Ordering::SeqCst) {
                stretto_sim_rt::local::block_on(stretto_sim_rt::local::sleep_ns(*ns));
            } else {
                rt::sleep_ns(*ns);
            }
            Res::Unit
        }
        Op::Jump { ns } => {
            rt::jump_clock_ns(*ns);
            Res::Unit
        }
        Op::WallStepBack { ns } => {
            rt::wall_step_back_ns(*ns);
            Res::Unit
        }
        Op::WallStepFwd { ns } => {
            rt::wall_step_fwd_ns(*ns);
            Res::Unit
        }
        Op::Yield => {
            rt::yield_now();
            Res::Unit
        }
        Op::FaultsOff => {
            rt::faults_off();
            Res::Unit
        }
        Op::StallSelf { ns, skip } => {
            rt::stall_self_later(*ns, *skip);
            Res::Unit
        }
        Op::InsertMany { base, n } => {
            let mut ok = 0i64;
            for i in 0..*n {
                if let Ok(true) = api.insert(base + i, Val { id: 50_000_000 + val_id(client, idx) + i, key: base + i, size: 1 }, 1, dur_of_ttl(0)) {
                    ok += 1;
                }
            }
            Res::Num(ok)
        }
        Op::GetMany { k, n } => {
            let mut hits = 0i64;
            for _ in 0..*n {
                if api.get(*k, 0).is_some() {
                    hits += 1;
                }
            }
            Res::Num(hits)
        }
        Op::MetricsReset => {
            api.metrics_reset();
            Res::Unit
        }
        Op::StallWorker { ns, skip } => {
            rt::stall_task_later("processor", *ns, *skip);
            Res::Unit
        }
        Op::CancelNext { after } => {
            CANCEL_AFTER.with(|c| c.set(Some(*after)));
            Res::Unit
        }
        Op::WhileHolding { what, v } => {
            let a = api.clone_box();
            let (what, v) = (*what, *v);
            let f: Box<dyn FnOnce()> = Box::new(move || {
                if what >= 3 && CUR_LOOKUP_KEY.with(|c| c.get()).map_or(true, |held| held % 256 >= (v as u64) % 256) {
                    // An application that takes a second shard lock while it holds a reference
                    // must order its locks, or two of its threads deadlock each other (A then B
                    // against B then A) without any fault of the library: the clients only ever go
                    // from a lower shard to a higher one.  (Same shard: the caller's own deadlock.)
                    return;
                }
                let inner = match what {
                    0 => Op::Close,
                    1 => Op::MaxCost,
                    2 => Op::UpdateMaxCost { v },
                    // a key of another shard
                    3 => Op::InsertIfPresent { k: v as u64, cost: 1, size: 1 },
                    _ => Op::GetTtl { k: v as u64 },
                };
                do_op(a.as_ref(), client, idx + 50_000, &inner);
            });
            HOLD_ACTION.with(|h| *h.borrow_mut() = Some(f));
            Res::Unit
        }
        Op::Barrier | Op::DropHandle => Res::Unit,
    }));
    let res = match r {
        Ok(Res::Err(e)) if e == CANCELLED => Res::Cancelled,
        Ok(r) => r,
        Err(p) => Res::Panic(rt::panic_msg(&p)),
    };
    if !matches!(op, Op::CancelNext { .. }) {
        // a cancellation request concerns the very next operation only
        CANCEL_AFTER.with(|c| c.set(None));
    }
    if matches!(op, Op::Wait) && matches!(res, Res::Unit) {
        // the barrier oracle (C10) needs the state at the very instant wait() returns
        let ctx = SNAP_CTX.lock().unwrap_or_else(|e| e.into_inner()).clone();
        if let Some((universe, keys)) = ctx {
            let snap = snap_of_q(api, &universe, &HKb(keys), false);
            log(EvKind::Checkpoint { id: usize::MAX, snap, quiescent: false });
        }
    }
    log(EvKind::Ret { client, idx, res });
}

static SNAP_CTX: Mutex<Option<(Vec<u64>, KeyMode)>> = Mutex::new(None);

fn log_keymap(api: &dyn Api, universe: &[u64]) {
    let mask = MASK_CONFLICT.load(Ordering::SeqCst);
    let km: Vec<(u64, u64, u64, u64, u64)> = universe
        .iter()
        .map(|k| {
            let (i, c) = api.key_hash(*k, false);
            let (bi, bc) = api.key_hash(*k, true);
            // conflicts of DefaultKeyBuilder are seeded from thread_rng: log only their agreement
            if mask {
                (*k, i, (c == bc) as u64, bi, (c == bc) as u64)
            } else {
                (*k, i, c, bi, bc)
            }
        })
        .collect();
    log(EvKind::KeyMap(km));
}

struct Shared {
    /// number of clients currently waiting at the barrier (or finished)
    arrived: AtomicUsize,
    /// barrier generation
    gen: AtomicUsize,
    finished: AtomicUsize,
    /// set before the drop-all finale: chaos tasks that have not fired yet give up their handle
    cancel_chaos: AtomicUsize,
    chaos_done: AtomicUsize,
}

/// The body of task 0.
pub fn run_plan(plan: &Plan) {
    stretto_sim_rt::obs::set_sink(Box::new(obs_sink));
    stretto_sim_rt::obs::set_muted(plan.has_tag("mega_admissions"));
    stretto_sim_rt::obs::TICK_EVENTS.store(plan.has_tag("tick_events"), Ordering::SeqCst);
    *SNAP_CTX.lock().unwrap_or_else(|e| e.into_inner()) = if plan.has_tag("snap_at_wait") { Some((plan.universe.clone(), plan.cfg.keys.clone())) } else { None };
    let kb = HKb(plan.cfg.keys.clone());
    let built = catch_unwind(AssertUnwindSafe(|| build(&plan.cfg)));
    let api: Box<dyn Api> = match built {
        Ok(Ok(a)) => {
            let sz = rt::atomic(|| a.snapshot(&[]).item_size);
            log(EvKind::Built { ok: true, err: String::new(), item_size: sz });
            log_keymap(a.as_ref(), &plan.universe);
            *MAIN_API.lock().unwrap_or_else(|e| e.into_inner()) = if plan.cfg.reentrant_cb { Some(a.clone_box()) } else { None };
            a
        }
        Ok(Err(e)) => {
            log(EvKind::Built { ok: false, err: e, item_size: 0 });
            return;
        }
        Err(p) => {
            log(EvKind::Built { ok: false, err: format!("panic: {}", rt::panic_msg(&p)), item_size: 0 });
            return;
        }
    };
    let n = plan.clients.len();
    let shared = Arc::new(Shared { arrived: AtomicUsize::new(0), gen: AtomicUsize::new(0), finished: AtomicUsize::new(0), cancel_chaos: AtomicUsize::new(0), chaos_done: AtomicUsize::new(0) });
    let n_barriers = plan.clients.iter().map(|c| c.iter().filter(|o| matches!(o, Op::Barrier)).count()).max().unwrap_or(0);

    for (ci, script) in plan.clients.iter().enumerate() {
        let handle = api.clone_box();
        let script = script.clone();
        let sh = shared.clone();
        rt::spawn_task(&format!("c{}", ci), rt::Kind::Client, move || {
            let mut handle = Some(handle);
            let mut my_gen = 0usize;
            for (idx, op) in script.iter().enumerate() {
                match op {
                    Op::Barrier => {
                        log(EvKind::Inv { client: ci, idx, op: op.clone(), val: None });
                        if LOCAL_EXEC.load(Ordering::SeqCst) {
                            stretto_sim_rt::local::run_until_stalled();
                        }
                        sh.arrived.fetch_add(1, Ordering::SeqCst);
                        my_gen += 1;
                        let g = my_gen;
                        let shp = sh.clone();
                        rt::block("barrier", &move || shp.gen.load(Ordering::SeqCst) >= g);
                        log(EvKind::Ret { client: ci, idx, res: Res::Unit });
                    }
                    Op::DropHandle => {
                        log(EvKind::Inv { client: ci, idx, op: op.clone(), val: None });
                        handle = None;
                        log(EvKind::Ret { client: ci, idx, res: Res::Unit });
                        break;
                    }
                    _ => {
                        if let Some(h) = handle.as_ref() {
                            do_op(h.as_ref(), ci, idx, op);
                        }
                    }
                }
            }
            if LOCAL_EXEC.load(Ordering::SeqCst) {
                stretto_sim_rt::local::run_until_stalled();
            }
            drop(handle);
            sh.finished.fetch_add(1, Ordering::SeqCst);
        });
    }
    for (xi, ch) in plan.chaos.iter().enumerate() {
        let handle = api.clone_box();
        let ch = ch.clone();
        let sh = shared.clone();
        rt::spawn_task(&format!("x{}", xi), rt::Kind::Chaos, move || {
            let at = ch.at_step;
            let shp = sh.clone();
            rt::block("chaos.wait", &move || rt::STEPS.load(Ordering::SeqCst) >= at || shp.cancel_chaos.load(Ordering::SeqCst) > 0);
            if sh.cancel_chaos.load(Ordering::SeqCst) == 0 {
                do_op(handle.as_ref(), 100 + xi, 0, &ch.op);
            }
            drop(handle);
            sh.chaos_done.fetch_add(1, Ordering::SeqCst);
        });
    }

    // barrier phases
    let mut cp = 0usize;
    for b in 0..n_barriers {
        let sh = shared.clone();
        rt::block("controller.barrier", &move || sh.arrived.load(Ordering::SeqCst) + sh.finished.load(Ordering::SeqCst) >= n);
        rt::quiesce();
        let snap = snap_of(api.as_ref(), &plan.universe, &kb);
        log(EvKind::Checkpoint { id: cp, snap, quiescent: true });
        cp += 1;
        shared.arrived.store(0, Ordering::SeqCst);
        shared.gen.store(b + 1, Ordering::SeqCst);
    }
    let sh = shared.clone();
    rt::block("controller.join", &move || sh.finished.load(Ordering::SeqCst) >= n);
    if plan.has_tag("no_quiesce") {
        // (a timer that is always due: the processor never idles)
    } else if plan.has_tag("drop_busy") {
        // no quiescence: whatever is buffered now is still buffered when the handles go
        let snap = snap_of_q(api.as_ref(), &plan.universe, &kb, false);
        log(EvKind::Checkpoint { id: cp, snap, quiescent: false });
    } else {
        rt::quiesce();
    }
    if matches!(plan.cfg.keys, KeyMode::Typed { .. }) {
        rt::atomic(|| log_keymap(api.as_ref(), &plan.universe));
    }
    if !plan.has_tag("drop_busy") && !plan.has_tag("no_quiesce") {
        let snap = snap_of(api.as_ref(), &plan.universe, &kb);
        log(EvKind::Checkpoint { id: cp, snap, quiescent: true });
        cp += 1;
    }

    if plan.has_tag("settle_ttl") {
        // faults stop; every deadline still pending among the resident entries is allowed to
        // pass, plus one bucket width and one cleanup interval, and the state is looked at again
        rt::faults_off();
        let now = rt::NOW.load(Ordering::SeqCst);
        let last = snap_of(api.as_ref(), &plan.universe, &kb);
        let horizon = last
            .entries
            .as_ref()
            .map(|es| es.iter().filter(|e| e.ttl_ns > 0).map(|e| e.created_ns.saturating_add(e.ttl_ns)).filter(|d| *d < now + 40_000_000_000).max().unwrap_or(0))
            .unwrap_or(0);
        if horizon > 0 {
            let until = horizon.max(now) + 1_000_000_000 + plan.cfg.cleanup_ms * 1_000_000 + 2_000_000;
            do_op(api.as_ref(), 97, 0, &Op::Sleep { ns: until - now });
            rt::quiesce();
            let snap = snap_of(api.as_ref(), &plan.universe, &kb);
            log(EvKind::Checkpoint { id: cp, snap, quiescent: true });
            cp += 1;
        }
    }
    if plan.has_tag("final_probe") {
        // C20: the workers are alive in the only sense that matters
        let k = 7_777_777u64;
        do_op(api.as_ref(), 98, 0, &Op::Insert { k, cost: 1, ttl_ns: 0, size: 1 });
        do_op(api.as_ref(), 98, 1, &Op::Wait);
        do_op(api.as_ref(), 98, 2, &Op::Get { k, hold: 0 });
        do_op(api.as_ref(), 98, 3, &Op::Remove { k });
        do_op(api.as_ref(), 98, 4, &Op::Wait);
        do_op(api.as_ref(), 98, 5, &Op::Get { k, hold: 0 });
        if !plan.has_tag("no_quiesce") {
            rt::quiesce();
            let snap = snap_of(api.as_ref(), &plan.universe, &kb);
            log(EvKind::Checkpoint { id: cp, snap, quiescent: true });
            cp += 1;
        }
    }
    *MAIN_API.lock().unwrap_or_else(|e| e.into_inner()) = None;
    match plan.finale {
        Finale::None => {
            std::mem::forget(api);
        }
        Finale::Close => {
            do_op(api.as_ref(), 99, 0, &Op::Close);
            rt::quiesce();
            // post-close API behaviour
            do_op(api.as_ref(), 99, 1, &Op::Insert { k: plan.universe.first().copied().unwrap_or(1), cost: 1, ttl_ns: 0, size: 1 });
            do_op(api.as_ref(), 99, 2, &Op::Get { k: plan.universe.first().copied().unwrap_or(1), hold: 0 });
            do_op(api.as_ref(), 99, 3, &Op::Remove { k: plan.universe.first().copied().unwrap_or(1) });
            do_op(api.as_ref(), 99, 4, &Op::Clear);
            do_op(api.as_ref(), 99, 5, &Op::Wait);
            do_op(api.as_ref(), 99, 6, &Op::Close);
            rt::quiesce();
            let snap = snap_of(api.as_ref(), &plan.universe, &kb);
            log(EvKind::Checkpoint { id: cp, snap, quiescent: true });
            std::mem::forget(api);
        }
        Finale::DropAll => {
            // every handle must really be gone: chaos tasks that have not fired yet are cancelled
            // and the last handle is dropped only after all of them have let go of theirs
            shared.cancel_chaos.store(1, Ordering::SeqCst);
            let sh = shared.clone();
            let n_chaos = plan.chaos.len();
            rt::block("controller.chaos-join", &move || sh.chaos_done.load(Ordering::SeqCst) >= n_chaos);
            log(EvKind::Note("drop_all".into()));
            drop(api);
            // give the workers a fair chance to notice: they need scheduling points.  After the
            // last handle is gone three of the processor's four select arms are ready for ever
            // (disconnected channels), it leaves when the random pick lands on the stop arm, and
            // a pick of the clear arm costs a whole clear (~270 steps): the budget must make
            // "unlucky picks" (2/3 per round) impossible in practice, or this is a false alarm
            // (seen once in 40000 runs with a budget of 2000 yields).
            for _ in 0..30000 {
                rt::yield_fair();
                let t = rt::task_states();
                if t.iter().filter(|(n, _)| n.starts_with("processor") || n.starts_with("policy_worker")).all(|(_, s)| s == "finished" || s.starts_with("panicked")) {
                    break;
                }
            }
            log(EvKind::Note(format!("tasks_after_drop {:?}", rt::task_states())));
        }
    }
}
