//! C13 (popularity estimates), C15 (lookups feed the estimator, lossy but accountable),
//! C16 (charged cost), C20 (every accepted configuration works).

use crate::exec::*;
use crate::hist::*;
use crate::oracle_p::POut;
use crate::plan::*;
use std::collections::BTreeMap;

fn new_out() -> POut {
    POut { violations: vec![], probes: BTreeMap::new(), nontrivial: false }
}

fn probe(o: &mut POut, k: &'static str, n: u64) {
    *o.probes.entry(k).or_default() += n;
}

/// Reference TinyLFU with an ideal doorkeeper (a set) and exact 4-bit saturating counters.
#[derive(Default, Clone)]
pub struct RefLfu {
    pub n: usize,
    pub door: std::collections::BTreeSet<u64>,
    pub ctr: BTreeMap<u64, u8>,
    pub w: usize,
    pub recorded_since_reset: BTreeMap<u64, u64>,
    pub resets: u64,
    pub total_recorded: u64,
}

impl RefLfu {
    pub fn record(&mut self, k: u64) {
        self.total_recorded += 1;
        *self.recorded_since_reset.entry(k).or_default() += 1;
        if !self.door.insert(k) {
            let c = self.ctr.entry(k).or_default();
            if *c < 15 {
                *c += 1;
            }
        }
        self.w += 1;
        if self.w >= self.n {
            self.w = 0;
            self.door.clear();
            for c in self.ctr.values_mut() {
                *c >>= 1;
            }
            self.recorded_since_reset.clear();
            self.resets += 1;
        }
    }
    pub fn clear(&mut self) {
        self.door.clear();
        self.ctr.clear();
        self.w = 0;
        self.recorded_since_reset.clear();
        self.total_recorded = 0;
    }
    pub fn estimate(&self, k: u64) -> i64 {
        *self.ctr.get(&k).unwrap_or(&0) as i64 + self.door.contains(&k) as i64
    }
}

pub fn check_c13_c15(h: &Hist, want13: bool, want15: bool) -> POut {
    let mut out = new_out();
    if !h.built_ok {
        return out;
    }
    let cfg = &h.plan.cfg;
    let mut model = RefLfu { n: cfg.num_counters, ..Default::default() };
    let universe_idx: std::collections::BTreeSet<u64> = h.plan.universe.iter().map(|k| h.index_of(*k)).collect();
    let single_key = universe_idx.len() == 1;
    let has_clear = h.ops.iter().any(|o| matches!(o.op, Op::Clear));
    let first_close_inv = h.ops.iter().filter(|o| matches!(o.op, Op::Close)).map(|o| o.inv_seq).min();
    let mut kept: Vec<Vec<u64>> = Vec::new();
    let mut applied: Vec<Vec<u64>> = Vec::new();
    let mut kept_keys = 0u64;
    let mut dropped_keys = 0u64;
    let mut closed_lost_keys = 0u64;
    let mut pushed_keys = 0u64;
    let mut clear_seen_after_batches = false;
    for e in h.evs.iter() {
        match &e.kind {
            EvKind::Obs(ObsEv::Push { keys, kept: k, queue_len, closed }) => {
                pushed_keys += keys.len() as u64;
                if *closed {
                    closed_lost_keys += keys.len() as u64;
                    probe(&mut out, "batch_lost_because_closed", 1);
                } else if *k {
                    kept.push(keys.clone());
                    kept_keys += keys.len() as u64;
                } else {
                    dropped_keys += keys.len() as u64;
                    probe(&mut out, "batch_dropped_queue_full", 1);
                    if want15 {
                        let full = cfg.flavor == Flavor::Sync && *queue_len >= 3;
                        // the policy may be closing concurrently (channel disconnected)
                        let closing = first_close_inv.map_or(false, |c| c < e.seq);
                        if !full && !closing {
                            out.violations.push(viol("C15", "R2-dropped-without-cause", e.seq, "a batch was dropped although the policy queue was not full and the cache not closed", format!("batch {:?} dropped with queue_len={} flavor={:?}", keys, queue_len, cfg.flavor)));
                        }
                    }
                }
            }
            EvKind::Obs(ObsEv::Applied { keys }) => {
                applied.push(keys.clone());
                for k in keys {
                    model.record(*k);
                }
            }
            EvKind::Obs(ObsEv::PolicyCleared) => {
                model.clear();
                if !applied.is_empty() {
                    clear_seen_after_batches = true;
                }
            }
            EvKind::Checkpoint { snap, quiescent, .. } => {
                let Some(ests) = &snap.estimates else { continue };
                if snap.is_closed {
                    continue;
                }
                out.nontrivial |= model.total_recorded > 0 || model.resets > 0;
                if want13 || want15 {
                    for (k, est) in ests {
                        let m = model.estimate(*k);
                        let n = model.recorded_since_reset.get(k).copied().unwrap_or(0).min(16) as i64;
                        // upper bound (C13: stale popularity decays, counters do not grow by
                        // themselves): a count-min estimate exceeds the key's own count by at most
                        // what colliding keys contribute - here: everything every other key holds -
                        // plus the doorkeeper's false positive and the rounding of joint halvings
                        if want13 {
                            // (a doorkeeper false positive sends a key's FIRST access to the counters
                            // too, so every other key counts with its counter and its doorkeeper bit)
                            let others: i64 = model.ctr.iter().filter(|(j, _)| **j != *k).map(|(_, c)| *c as i64).sum::<i64>() + model.door.iter().filter(|j| **j != *k).count() as i64;
                            let bound = (m + others + 1 + model.resets.min(4) as i64).min(16);
                            if *est > bound {
                                out.violations.push(violk("C13", "R3-overcount", e.seq, *k, "estimate higher than the key's own recordings plus everything colliding keys could add", format!("key {}: estimate {} > bound {} (own reference {}, all other keys together {}, resets so far {}, num_counters={})", k, est, bound, m, others, model.resets, model.n)));
                            }
                        }
                        if *est < m || *est < n {
                            let p = if want13 { "C13" } else { "C15" };
                            out.violations.push(violk(p, if want13 { "R1-undercount" } else { "R4-estimate-misses-lookups" }, e.seq, *k, "estimate lower than the recordings applied since the last reset", format!("key {}: estimate {} < reference {} (recorded {} times since the last reset; num_counters={}, resets so far {})", k, est, m, n, model.n, model.resets)));
                        }
                        if *est > 16 && want13 {
                            out.violations.push(violk("C13", "R1-above-saturation", e.seq, *k, "estimate above the 4-bit limit plus doorkeeper", format!("key {}: estimate {}", k, est)));
                        }
                        if single_key && want13 && *est != m {
                            out.violations.push(violk("C13", "R2-single-key-exact", e.seq, *k, "single-key history: estimate differs from the reference TinyLFU", format!("key {}: estimate {} reference {} (w={} resets={} num_counters={})", k, est, m, model.w, model.resets, model.n)));
                        }
                        if m >= 16 {
                            probe(&mut out, "estimate_saturated", 1);
                        }
                    }
                    if want13 && model.total_recorded == 0 && model.resets == 0 || (want13 && model.total_recorded == 0 && model.ctr.values().all(|c| *c == 0) && model.door.is_empty() && clear_seen_after_batches) {
                        if ests.iter().any(|(_, e)| *e != 0) {
                            out.violations.push(viol("C13", "R3-not-zero-when-fresh-or-cleared", e.seq, "non-zero estimate on a fresh or just-cleared estimator", format!("estimates {:?}", ests)));
                        }
                        if clear_seen_after_batches && model.total_recorded == 0 {
                            probe(&mut out, "estimates_checked_right_after_clear", 1);
                        }
                    }
                }
                if *quiescent && want15 && snap.policy_queue_len == 0 && !snap.policy_closed {
                    // every kept batch has been applied, in order
                    if kept != applied {
                        out.violations.push(viol("C15", "R4-kept-batches-not-applied", e.seq, "kept batches differ from the batches the policy worker applied", format!("kept {:?} applied {:?}", kept, applied)));
                    }
                    if let (Some(m), false) = (&snap.metrics, has_clear) {
                        if m.gets_kept != kept_keys || m.gets_dropped != dropped_keys {
                            out.violations.push(viol("C15", "R3-accounting", e.seq, "gets_kept / gets_dropped differ from the batches pushed", format!("gets_kept={} kept keys={} gets_dropped={} dropped keys={} (lost to a closed policy: {})", m.gets_kept, kept_keys, m.gets_dropped, dropped_keys, closed_lost_keys)));
                        }
                    }
                }
            }
            _ => {}
        }
    }
    if model.resets > 0 {
        probe(&mut out, "sketch_reset_crossed", model.resets);
    }
    // R1: flush arithmetic at the end of runs without close
    if want15 && first_close_inv.is_none() {
        if let Some(cp) = h.cps.iter().filter(|c| c.quiescent).last() {
            let lookups: u64 = h.ops.iter().filter(|o| o.ret_seq_or_max() < cp.seq).map(|o| o.op.lookups()).sum();
            let capa = cfg.buffer_items as u64;
            let expect = if capa <= 1 { lookups } else { lookups - lookups % capa };
            let pushed_before: u64 = h.obs().filter(|(e, _)| e.seq < cp.seq).map(|(_, o)| if let ObsEv::Push { keys, .. } = o { keys.len() as u64 } else { 0 }).sum();
            if lookups > 0 {
                out.nontrivial = true;
            }
            if pushed_before != expect {
                out.violations.push(viol("C15", "R1-flush-arithmetic", cp.seq, "number of keys flushed differs from lookups minus the pending partial batch", format!("lookups={} buffer_items={} expected flushed={} observed={}", lookups, capa, expect, pushed_before)));
            }
            let _ = pushed_keys;
        }
    }
    out
}

// ------------------------------------------------------------------------------------------
// C16
// ------------------------------------------------------------------------------------------

pub fn check_c16(h: &Hist) -> POut {
    let mut out = new_out();
    if !h.built_ok || h.plan.cfg.validator != Validator::Always || matches!(h.plan.cfg.keys, KeyMode::Collide { .. }) {
        return out;
    }
    if h.plan.has_tag("small_buffer") || h.ops.iter().any(|o| matches!(o.op, Op::Clear | Op::Close)) {
        return out;
    }
    let cfg = &h.plan.cfg;
    let item = if cfg.ignore_internal_cost { 0 } else { h.item_size as i64 };
    if h.item_size != 48 + std::mem::size_of::<Val>() {
        out.violations.push(viol("C16", "R-item-size", 0, "internal per-entry overhead differs from 48 bytes plus the value size", format!("item_size={} size_of<Val>={}", h.item_size, std::mem::size_of::<Val>())));
    }
    let expect_of = |o: &OpRec| -> Option<i64> {
        let (cost, size) = match &o.op {
            Op::Insert { cost, size, .. } | Op::InsertIfPresent { cost, size, .. } => (*cost, *size),
            _ => return None,
        };
        let c = if cost != 0 {
            cost
        } else if cfg.coster {
            size as i64
        } else {
            0
        };
        Some(c + item)
    };
    // writes per key, to know which keys have quiescence between consecutive writes
    let mut per_key: BTreeMap<u64, Vec<&OpRec>> = BTreeMap::new();
    for o in h.ops.iter().filter(|o| matches!(o.op, Op::Insert { .. } | Op::InsertIfPresent { .. } | Op::Remove { .. } | Op::GetMut { write: true, .. })) {
        per_key.entry(o.op.key().unwrap()).or_default().push(o);
    }
    let separated: BTreeMap<u64, bool> = per_key.iter().map(|(k, ws)| (*k, ws.windows(2).all(|p| p[0].returned() && h.quiescent_between(p[0].ret_seq.unwrap(), p[1].inv_seq).is_some()))).collect();
    for cp in h.cps.iter().filter(|c| c.quiescent) {
        let (Some(es), Some((_, _, pol))) = (&cp.snap.entries, &cp.snap.policy) else { continue };
        for e in es {
            let k = e.val.key;
            if !separated.get(&k).copied().unwrap_or(false) {
                // writes of this key overlapped: value order and cost order may differ (the value
                // is swapped on the caller's thread, the cost travels through the buffer), but the
                // charge is still the charge of SOME accepted write of the key
                if let Some((_, c)) = pol.iter().find(|(x, _)| *x == e.index) {
                    let candidates: Vec<i64> = per_key.get(&k).map(|ws| ws.iter().filter(|o| o.inv_seq < cp.seq && (o.ok_true() || !o.returned())).filter_map(|o| expect_of(o)).collect()).unwrap_or_default();
                    if !candidates.is_empty() {
                        out.nontrivial = true;
                        probe(&mut out, "charge_checked_against_overlapping_writes", 1);
                        if !candidates.contains(c) {
                            out.violations.push(violk("C16", "R-charge-matches-no-write", cp.seq, k, "charge of an entry equals cost (or Coster value) plus overhead of none of the accepted writes of its key", format!("key {}: charged {}, accepted writes would give {:?} (coster={}, ignore_internal_cost={}, item_size={})", k, c, candidates, cfg.coster, cfg.ignore_internal_cost, h.item_size)));
                        }
                    }
                }
                continue;
            }
            // the latest applied write: the last accepted insert of k before the checkpoint
            let last = per_key.get(&k).and_then(|ws| ws.iter().filter(|o| o.ret_seq_or_max() < cp.seq && o.ok_true()).last());
            let Some(last) = last else { continue };
            if last.val.map(|v| v.id) != Some(e.val.id) {
                continue; // a get_mut write or something the other oracles judge
            }
            let Some(exp) = expect_of(last) else { continue };
            out.nontrivial = true;
            match pol.iter().find(|(x, _)| *x == e.index) {
                Some((_, c)) => {
                    if *c != exp {
                        let upd = h.cbs.iter().any(|c| c.in_op.map(|i| h.ops[i].inv_seq) == Some(last.inv_seq));
                        out.violations.push(violk("C16", if upd { "R-charge-after-update" } else { "R-charge-after-insert" }, cp.seq, k, if upd { "charge of an updated entry differs from cost (or Coster value) plus overhead" } else { "charge of a new entry differs from cost (or Coster value) plus overhead" }, format!("key {}: charged {} expected {} ({:?}, coster={}, ignore_internal_cost={}, item_size={})", k, c, exp, last.op, cfg.coster, cfg.ignore_internal_cost, h.item_size)));
                    }
                    if let Op::Insert { cost: 0, .. } | Op::InsertIfPresent { cost: 0, .. } = last.op {
                        probe(&mut out, "coster_valued_entry", 1);
                    }
                }
                None => {}
            }
        }
    }
    // callback costs
    if cfg.callback == CallbackMode::Full {
        for c in h.cbs.iter().filter(|c| matches!(c.kind, CbKind::Evict | CbKind::Reject)) {
            let Some(v) = c.val else { continue };
            if !separated.get(&v.key).copied().unwrap_or(false) {
                continue;
            }
            let Some(o) = h.ops.iter().find(|o| o.val.map(|x| x.id) == Some(v.id)) else { continue };
            let Some(exp) = expect_of(o) else { continue };
            // an eviction reports the charge the entry had at that moment: it is the value's own
            // cost only once the write has been applied (the cache quiesced since)
            if c.kind == CbKind::Evict && (!o.returned() || h.quiescent_between(o.ret_seq.unwrap(), c.seq).is_none()) {
                continue;
            }
            probe(&mut out, if c.kind == CbKind::Evict { "evict_callback_cost_checked" } else { "reject_callback_cost_checked" }, 1);
            if c.cost != exp {
                out.violations.push(violk("C16", if c.kind == CbKind::Evict { "R-evict-cost" } else { "R-reject-cost" }, c.seq, v.key, if c.kind == CbKind::Evict { "on_evict cost differs from the charged cost" } else { "on_reject cost differs from the cost the entry would have been charged" }, format!("value {:?}: callback cost {} expected {} ({:?})", v, c.cost, exp, o.op)));
            }
        }
    }
    out
}

// ------------------------------------------------------------------------------------------
// C20
// ------------------------------------------------------------------------------------------

pub fn check_c20(h: &Hist) -> POut {
    let mut out = new_out();
    let cfg = &h.plan.cfg;
    let expect_err = if cfg.num_counters == 0 {
        Some("InvalidNumCounters")
    } else if cfg.max_cost == 0 {
        Some("InvalidMaxCost")
    } else if cfg.buffer_size == 0 {
        Some("InvalidBufferSize")
    } else {
        None
    };
    match (expect_err, h.built_ok) {
        (Some(e), false) => {
            probe(&mut out, "zero_parameter_rejected", 1);
            out.nontrivial = true;
            if !h.build_err.contains(e) {
                out.violations.push(viol("C20", "R-wrong-error", 0, "zero parameter rejected with another error than the documented one", format!("expected {} got {}", e, h.build_err)));
            }
        }
        (Some(e), true) => out.violations.push(viol("C20", "R-zero-accepted", 0, "a zero parameter was accepted by the builder", format!("expected {} for {:?}", e, cfg))),
        (None, false) => out.violations.push(viol("C20", "R-config-rejected", 0, &format!("a valid configuration was rejected: {}", h.build_err.chars().map(|c| if c.is_ascii_digit() { '#' } else { c }).collect::<String>()), format!("{:?}: {}", cfg, h.build_err))),
        (None, true) => {
            // non-trivial = the configuration has at least one small / unusual parameter
            out.nontrivial = cfg.num_counters < 64 || cfg.max_cost < 100 || cfg.buffer_size <= 8 || cfg.buffer_items <= 1 || cfg.cleanup_ms <= 10;
            if cfg.num_counters < 64 {
                probe(&mut out, "tiny_num_counters", 1);
            }
            if cfg.max_cost < 0 {
                probe(&mut out, "negative_max_cost", 1);
            }
            if cfg.buffer_size == 1 {
                probe(&mut out, "buffer_size_one", 1);
            }
            if cfg.buffer_items <= 1 {
                probe(&mut out, "buffer_items_zero_or_one", 1);
            }
            // final liveness probe (client 98)
            let get = |idx: usize| h.ops.iter().find(|o| o.client == 98 && o.idx == idx);
            if let (Some(ins), Some(w), Some(g), Some(w2), Some(g2)) = (get(0), get(1), get(2), get(4), get(5)) {
                let item = if cfg.ignore_internal_cost { 0 } else { h.item_size as i64 };
                let fits = cfg.max_cost >= 1 + item;
                if matches!(w.res, Some(Res::Unit)) && ins.ok_true() && fits {
                    probe(&mut out, "final_probe_resident", 1);
                    let hit = matches!(&g.res, Some(Res::Got(Some((v, _, _)))) if Some(v.id) == ins.val.map(|x| x.id));
                    // a popularity rejection is legitimate when the cache is full
                    let rejected = h.cbs.iter().any(|c| c.val.map(|v| v.id) == ins.val.map(|x| x.id));
                    if !hit && !rejected {
                        out.violations.push(viol("C20", "R-final-insert-lost", g.ret_seq_or_max(), "insert + wait on a live cache with room did not make the entry retrievable", format!("{:?} -> {:?}; wait {:?}; get {:?}", ins.op, ins.res, w.res, g.res)));
                    }
                }
                let removed_ok = get(3).map_or(false, |r| matches!(r.res, Some(Res::Unit)));
                if removed_ok && matches!(w2.res, Some(Res::Unit)) && !matches!(g2.res, Some(Res::Got(None))) {
                    out.violations.push(viol("C20", "R-final-remove", g2.ret_seq_or_max(), "remove + wait did not remove the entry", format!("get after remove: {:?}", g2.res)));
                }
            }
        }
    }
    out
}
