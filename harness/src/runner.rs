//! One run = one forked process.  Parallel fork servers, aggregation, minimisation, replay.

use crate::exec::*;
use crate::hist::*;
use crate::oracle;
use crate::plan::*;
use serde::{Deserialize, Serialize};
use std::collections::{BTreeMap, BTreeSet};
use std::io::{Read, Write};
use std::os::unix::io::FromRawFd;
use stretto_sim_rt::rt::{self, Choices, End, Mode, SimCfg, Stall};

#[derive(Serialize, Deserialize, Clone, Debug, Default)]
pub struct RunSummary {
    pub end: String,
    pub violations: Vec<Violation>,
    pub log_hash: u64,
    pub sched_sig: u64,
    pub steps: u64,
    pub switches: u64,
    pub virt_ns: u64,
    pub probes: BTreeMap<String, u64>,
    pub faults: BTreeMap<String, u64>,
    pub nontrivial: bool,
    pub state_hashes: Vec<u64>,
    pub n_events: usize,
    pub choices: Option<Vec<u32>>,
    pub choices_drawn: u64,
    pub tasks: Vec<(String, String)>,
    pub dump: Option<String>,
}

/// wall-clock watchdog per child (ms); a timeout is a harness error, never a verdict
pub fn child_timeout_ms() -> i32 {
    std::env::var("DST_CHILD_TIMEOUT_MS").ok().and_then(|s| s.parse().ok()).unwrap_or(60_000)
}

pub fn fnv64(h: u64, bytes: &[u8]) -> u64 {
    let mut h = h;
    for b in bytes {
        h = (h ^ (*b as u64)).wrapping_mul(0x100000001b3);
    }
    h
}

pub fn sim_cfg_of(plan: &Plan) -> SimCfg {
    SimCfg {
        mode: match plan.sim.mode {
            SchedMode::RandomWalk { stay_permille } => Mode::RandomWalk { stay_permille },
            SchedMode::Pct { depth, est_steps } => Mode::Pct { depth, est_steps },
            SchedMode::RoundRobin { quantum } => Mode::RoundRobin { quantum },
        },
        eager_clock_permille: plan.sim.eager_clock_permille,
        throttle: plan.sim.throttle,
        max_steps: plan.sim.max_steps,
        max_virtual_ns: 8 * 3600 * 1_000_000_000,
        stuck_ns: (20 * plan.cfg.cleanup_ms * 1_000_000).max(30 * 1_000_000_000),
        stalls: plan.sim.stalls.iter().map(|s| Stall { at_step: s.at_step, name_contains: s.task.clone(), for_steps: s.for_steps, for_ns: s.for_ns }).collect(),
        epoch_ns: crate::gen::EPOCH_S * 1_000_000_000 + plan.sim.epoch_phase_ns,
        stall_after_recv_permille: plan.sim.stall_after_recv_permille,
        step_cost_ns: plan.sim.step_cost_ns,
    }
}

/// Host-environment input: confine this process (one per run) to the first `n` CPUs it may use.
fn confine_to_cpus(n: u8, seed: u64) {
    if n == 0 {
        return;
    }
    unsafe {
        let mut cur: libc::cpu_set_t = std::mem::zeroed();
        if libc::sched_getaffinity(0, std::mem::size_of::<libc::cpu_set_t>(), &mut cur) != 0 {
            return;
        }
        let allowed: Vec<usize> = (0..libc::CPU_SETSIZE as usize).filter(|c| libc::CPU_ISSET(*c, &cur)).collect();
        if allowed.len() <= n as usize {
            return;
        }
        let mut new: libc::cpu_set_t = std::mem::zeroed();
        let start = (seed >> 20) as usize % allowed.len();
        for i in 0..n as usize {
            libc::CPU_SET(allowed[(start + i) % allowed.len()], &mut new);
        }
        libc::sched_setaffinity(0, std::mem::size_of::<libc::cpu_set_t>(), &new);
    }
}

/// Execute in this process (used inside the forked child and by `--inproc` debugging).
pub fn execute(plan: &Plan, choices: Option<Vec<u32>>, record: bool, props: &[String], dump: bool) -> RunSummary {
    std::panic::set_hook(Box::new(|_| {}));
    confine_to_cpus(plan.sim.cpus, plan.seed);
    if plan.has_tag("differential") {
        return execute_differential(plan, choices, record, props, dump);
    }
    let cfg = sim_cfg_of(plan);
    let ch = match choices {
        Some(v) => Choices::from_vec(v),
        None => Choices::from_seed(plan.seed ^ 0x5eed_5eed),
    };
    let p2 = plan.clone();
    let out = rt::run(cfg, ch, record, move || run_plan(&p2));
    let evs = take_log();
    let mut lh = 0xcbf29ce484222325u64;
    for e in &evs {
        // the log hash covers everything an oracle can see
        let s = serde_json::to_vec(e).unwrap();
        lh = fnv64(lh, &s);
    }
    let h = Hist::new(plan, &evs);
    let prop_refs: Vec<&str> = props.iter().map(|s| s.as_str()).collect();
    let mut res = oracle::check_all(&h, &out, &prop_refs);
    let mut faults = BTreeMap::new();
    faults.insert("time_advances".to_string(), out.counters.time_advances);
    faults.insert("eager_clock_advance".to_string(), out.counters.eager_advances);
    faults.insert("clock_jump".to_string(), out.counters.clock_jumps);
    faults.insert("wall_clock_stepped_back".to_string(), out.counters.wall_steps_back);
    faults.insert("wall_clock_alone_stepped_forward".to_string(), out.counters.wall_steps_fwd);
    faults.insert("clock_moved_past_spinning_tasks_to_a_sleeper".to_string(), out.counters.spin_advances);
    faults.insert("stall_skips".to_string(), out.counters.stall_skips);
    faults.insert("worker_stalled_right_after_receiving".to_string(), out.counters.stalls_after_recv);
    faults.insert("task_stalled_in_virtual_time".to_string(), out.counters.vstalls);
    faults.insert("blocks".to_string(), out.counters.blocks);
    faults.insert("select_arm_choices".to_string(), out.counters.select_choices);
    if plan.sim.cpus > 0 {
        faults.insert("host_confined_to_1_to_3_cpus".to_string(), 1);
    }
    // fault kinds that actually fired in this run, counted from the history
    {
        let mut add = |k: &str, n: u64| {
            if n > 0 {
                *faults.entry(k.to_string()).or_default() += n;
            }
        };
        for o in &h.ops {
            let chaos = o.client >= 100;
            match (&o.op, &o.res) {
                (Op::Clear, Some(_)) if chaos => add("chaos_clear_at_arbitrary_step", 1),
                (Op::Clear, Some(_)) => add("inline_clear", 1),
                (Op::Close, Some(_)) if chaos => add("chaos_close_at_arbitrary_step", 1),
                (Op::UpdateMaxCost { .. }, Some(_)) => add("capacity_change", 1),
                (Op::Jump { .. }, Some(_)) => add("clock_jump_op", 1),
                (Op::StallSelf { .. }, Some(_)) => add("stall_placed_inside_the_next_operation", 1),
                (Op::StallWorker { .. }, Some(_)) => add("processor_stalled_inside_its_next_piece_of_work", 1),
                (Op::WhileHolding { .. }, Some(_)) => add("call_made_while_holding_a_reference", 1),
                (Op::Insert { ttl_ns, .. }, Some(_)) if *ttl_ns >= u64::MAX - 3 => add("ttl_beyond_any_representable_deadline", 1),
                (Op::Sleep { .. }, Some(_)) => add("virtual_sleep", 1),
                (Op::Insert { .. }, Some(Res::Bool(false))) => add("insert_refused_or_dropped", 1),
                (Op::Get { hold, .. }, Some(_)) if *hold > 0 => add("value_ref_held_across_steps", 1),
                (_, Some(Res::Cancelled)) => add("operation_future_cancelled_at_an_await", 1),
                (_, Some(Res::Err(_))) => add("operation_reported_error_(buffer_full_or_closed)", 1),
                (_, None) => add("operation_never_returned", 1),
                _ => {}
            }
        }
        for (_, ob) in h.obs() {
            if let ObsEv::Push { kept: false, closed, .. } = ob {
                add(if *closed { "get_batch_lost_closed" } else { "get_batch_dropped_queue_full" }, 1);
            }
        }
        add("planned_stalls", plan.sim.stalls.len() as u64);
        add("runs_with_eager_clock", (plan.sim.eager_clock_permille > 0) as u64);
        add("drop_all_handles", (plan.finale == Finale::DropAll) as u64);
        add("built_through_constructor_defaults", plan.cfg.use_defaults as u64);
        add("builder_recipe_other_than_the_plain_one", (plan.cfg.recipe != 0) as u64);
        add("more_than_25_client_threads", (plan.clients.len() > 25) as u64);
        if let Some(t) = plan.tags.iter().find(|t| t.starts_with("chaos_offset_")) {
            add(&format!("enumerated_{}", t), 1);
        }
        add("veto_by_validator", h.evs.iter().filter(|e| matches!(e.kind, EvKind::Validate { ok: false, .. })).count() as u64);
    }
    let mut state_hashes = Vec::new();
    for c in &h.cps {
        let mut x = 0xcbf29ce484222325u64;
        if let Some(es) = &c.snap.entries {
            for e in es {
                x = fnv64(x, &e.index.to_le_bytes());
                x = fnv64(x, &[(e.ttl_ns > 0) as u8]);
            }
        }
        if let Some((_, _, p)) = &c.snap.policy {
            for (k, c) in p {
                x = fnv64(x, &k.to_le_bytes());
                x = fnv64(x, &c.to_le_bytes());
            }
        }
        if let Some(b) = &c.snap.buckets {
            for (_, ks) in b {
                x = fnv64(x, &(ks.len() as u64).to_le_bytes());
            }
        }
        state_hashes.push(x);
    }
    let end = match &out.end {
        End::Completed => "completed".to_string(),
        End::Deadlock(s) => format!("deadlock: {}", s),
        End::Stuck(s) => format!("stuck: {}", s),
        End::StepLimit => "step_limit".to_string(),
        End::TimeLimit => "time_limit".to_string(),
    };
    let dump_s = if dump {
        let mut s = String::new();
        for e in &evs {
            s.push_str(&format!("{:>5} t={:>12} {:<14} {}\n", e.seq, e.now.saturating_sub(out.epoch_ns), e.task, render_ev(&e.kind)));
        }
        Some(s)
    } else {
        None
    };
    res.probes.insert("runs_with_switches".into(), (out.counters.switches > 0) as u64);
    RunSummary {
        end,
        violations: res.violations,
        log_hash: lh,
        sched_sig: out.sched_sig,
        steps: out.counters.steps,
        switches: out.counters.switches,
        virt_ns: out.now_ns - out.epoch_ns,
        probes: res.probes,
        faults,
        nontrivial: res.nontrivial,
        state_hashes,
        n_events: evs.len(),
        choices: if record { Some(out.choices) } else { None },
        choices_drawn: out.choices_drawn,
        tasks: out.tasks,
        dump: dump_s,
    }
}

pub fn render_ev(k: &EvKind) -> String {
    match k {
        EvKind::Inv { client, idx, op, val } => format!("INV c{}#{} {:?} val={:?}", client, idx, op, val.map(|v| v.id)),
        EvKind::Ret { client, idx, res } => format!("RET c{}#{} {:?}", client, idx, res),
        EvKind::Cb { kind, val, index, cost, ttl_ns, .. } => format!("CB {:?} val={:?} index={} cost={} ttl={}", kind, val.map(|v| v.id), index, cost, ttl_ns),
        EvKind::Coster { val, cost } => format!("COSTER {} -> {}", val.id, cost),
        EvKind::Validate { prev, curr, ok } => format!("VALIDATE {} -> {} : {}", prev.id, curr.id, ok),
        EvKind::Obs(o) => format!("OBS {:?}", o),
        EvKind::Checkpoint { id, snap, quiescent } => format!(
            "CHECKPOINT {} q={} len={} entries={:?} policy={:?} buckets={:?} buf={} pq={} metrics={:?}",
            id,
            quiescent,
            snap.len,
            snap.entries.as_ref().map(|e| e.iter().map(|x| (x.index, x.val.id, x.ttl_ns)).collect::<Vec<_>>()),
            snap.policy,
            snap.buckets,
            snap.insert_buf_len,
            snap.policy_queue_len,
            snap.metrics
        ),
        EvKind::Built { ok, err, item_size } => format!("BUILT ok={} err={} item_size={}", ok, err, item_size),
        EvKind::KeyMap(km) => format!("KEYMAP {:?}", km),
        EvKind::Note(s) => format!("NOTE {}", s),
    }
}

// ------------------------------------------------------------------------------------------
// fork plumbing
// ------------------------------------------------------------------------------------------

pub enum ChildResult {
    Ok(RunSummary),
    /// the child died or timed out: a harness error, never a verdict
    Crashed(String),
}

pub fn run_forked(plan: &Plan, choices: Option<Vec<u32>>, record: bool, props: &[String], dump: bool, timeout_ms: i32) -> ChildResult {
    // the rare long-life plans (a million lookups, a hundred thousand admissions) take 10-20 s on
    // an idle machine: on a loaded one they must not be mistaken for a hung child
    let timeout_ms = if plan.has_tag("mega") { timeout_ms.saturating_mul(10) } else { timeout_ms };
    unsafe {
        let mut fds = [0i32; 2];
        if libc::pipe(fds.as_mut_ptr()) != 0 {
            return ChildResult::Crashed("pipe failed".into());
        }
        let pid = libc::fork();
        if pid < 0 {
            return ChildResult::Crashed("fork failed".into());
        }
        if pid == 0 {
            libc::close(fds[0]);
            let s = execute(plan, choices, record, props, dump);
            let bytes = serde_json::to_vec(&s).unwrap_or_default();
            let mut f = std::fs::File::from_raw_fd(fds[1]);
            let _ = f.write_all(&bytes);
            let _ = f.flush();
            libc::_exit(0);
        }
        libc::close(fds[1]);
        let mut f = std::fs::File::from_raw_fd(fds[0]);
        let mut buf = Vec::new();
        let mut pfd = libc::pollfd { fd: fds[0], events: libc::POLLIN, revents: 0 };
        let start = std::time::Instant::now();
        let mut timed_out = false;
        loop {
            let left = timeout_ms as i64 - start.elapsed().as_millis() as i64;
            if left <= 0 {
                timed_out = true;
                break;
            }
            let r = libc::poll(&mut pfd, 1, left as i32);
            if r < 0 {
                continue;
            }
            if r == 0 {
                timed_out = true;
                break;
            }
            let mut tmp = [0u8; 65536];
            match f.read(&mut tmp) {
                Ok(0) => break,
                Ok(n) => buf.extend_from_slice(&tmp[..n]),
                Err(_) => break,
            }
        }
        if timed_out {
            libc::kill(pid, libc::SIGKILL);
        }
        let mut status = 0i32;
        libc::waitpid(pid, &mut status, 0);
        if timed_out {
            return ChildResult::Crashed(format!("child timed out after {} ms (seed {})", timeout_ms, plan.seed));
        }
        match serde_json::from_slice::<RunSummary>(&buf) {
            Ok(s) => ChildResult::Ok(s),
            Err(e) => ChildResult::Crashed(format!("child produced no result (status {:#x}, {} bytes, {}) seed {}", status, buf.len(), e, plan.seed)),
        }
    }
}

// ------------------------------------------------------------------------------------------
// batch
// ------------------------------------------------------------------------------------------

#[derive(Serialize, Deserialize, Clone, Debug, Default)]
pub struct Agg {
    pub runs: u64,
    pub crashed: Vec<String>,
    pub ends: BTreeMap<String, u64>,
    pub sched_sigs: BTreeSet<u64>,
    pub log_hashes: BTreeSet<u64>,
    pub state_hashes: BTreeSet<u64>,
    pub nontrivial_sigs: BTreeSet<u64>,
    pub steps: u64,
    pub switches: u64,
    pub virt_ns: u64,
    pub probes: BTreeMap<String, u64>,
    pub probe_runs: BTreeMap<String, u64>,
    pub faults: BTreeMap<String, u64>,
    pub fault_runs: BTreeMap<String, u64>,
    pub families: BTreeMap<String, u64>,
    pub flavors: BTreeMap<String, u64>,
    pub other_prop_violations: BTreeMap<String, u64>,
    /// (run index, seed, violation)
    pub violations: Vec<(u64, u64, Violation)>,
    pub samples: Vec<serde_json::Value>,
    /// (run index, log hash, schedule signature) — only filled when `per_run` is requested
    pub per_run: Vec<(u64, u64, u64)>,
}

impl Agg {
    pub fn merge(&mut self, o: Agg) {
        self.runs += o.runs;
        self.crashed.extend(o.crashed);
        for (k, v) in o.ends {
            *self.ends.entry(k).or_default() += v;
        }
        self.sched_sigs.extend(o.sched_sigs);
        self.log_hashes.extend(o.log_hashes);
        self.state_hashes.extend(o.state_hashes);
        self.nontrivial_sigs.extend(o.nontrivial_sigs);
        self.steps += o.steps;
        self.switches += o.switches;
        self.virt_ns += o.virt_ns;
        for (k, v) in o.probes {
            *self.probes.entry(k).or_default() += v;
        }
        for (k, v) in o.probe_runs {
            *self.probe_runs.entry(k).or_default() += v;
        }
        for (k, v) in o.faults {
            *self.faults.entry(k).or_default() += v;
        }
        for (k, v) in o.fault_runs {
            *self.fault_runs.entry(k).or_default() += v;
        }
        for (k, v) in o.families {
            *self.families.entry(k).or_default() += v;
        }
        for (k, v) in o.flavors {
            *self.flavors.entry(k).or_default() += v;
        }
        for (k, v) in o.other_prop_violations {
            *self.other_prop_violations.entry(k).or_default() += v;
        }
        self.violations.extend(o.violations);
        self.samples.extend(o.samples);
        self.per_run.extend(o.per_run);
    }
}

pub fn run_seed(base: u64, prop: &str, i: u64) -> u64 {
    let mut x = base ^ fnv64(0xcbf29ce484222325, prop.as_bytes()) ^ i.wrapping_mul(0x9E3779B97F4A7C15);
    rt::splitmix64(&mut x)
}

pub fn plan_summary(plan: &Plan) -> serde_json::Value {
    serde_json::json!({
        "seed": plan.seed,
        "family": plan.family,
        "flavor": format!("{:?}", plan.cfg.flavor),
        "cfg": plan.cfg,
        "sched": plan.sim.mode,
        "stalls": plan.sim.stalls,
        "eager_clock_permille": plan.sim.eager_clock_permille,
        "clients": plan.clients.iter().map(|c| c.iter().map(|o| format!("{:?}", o)).collect::<Vec<_>>()).collect::<Vec<_>>(),
        "chaos": plan.chaos.iter().map(|c| format!("@{} {:?}", c.at_step, c.op)).collect::<Vec<_>>(),
        "finale": format!("{:?}", plan.finale),
    })
}

/// Run indices `lo..hi` striped over `workers` fork servers.
pub fn batch(prop: &str, base_seed: u64, n_runs: u64, workers: usize, wall_cap_s: u64, props: &[String]) -> Agg {
    let mut pipes: Vec<(i32, i32)> = Vec::new();
    let start = std::time::Instant::now();
    for w in 0..workers {
        unsafe {
            let mut fds = [0i32; 2];
            assert_eq!(libc::pipe(fds.as_mut_ptr()), 0);
            let pid = libc::fork();
            assert!(pid >= 0);
            if pid == 0 {
                libc::close(fds[0]);
                for (r, _) in &pipes {
                    libc::close(*r);
                }
                let mut agg = Agg::default();
                let mut i = w as u64;
                while i < n_runs {
                    if start.elapsed().as_secs() >= wall_cap_s {
                        break;
                    }
                    let seed = run_seed(base_seed, prop, i);
                    let plan = crate::gen::gen_plan(prop, seed, i);
                    match run_forked(&plan, None, false, props, false, child_timeout_ms()) {
                        ChildResult::Crashed(m) => {
                            agg.runs += 1;
                            if agg.crashed.len() < 5 {
                                agg.crashed.push(m);
                            }
                        }
                        ChildResult::Ok(s) => {
                            agg.runs += 1;
                            let endk = s.end.split(':').next().unwrap_or("").to_string();
                            *agg.ends.entry(endk).or_default() += 1;
                            if std::env::var("DST_PER_RUN").is_ok() {
                                agg.per_run.push((i, s.log_hash, s.sched_sig ^ s.steps));
                            }
                            agg.sched_sigs.insert(s.sched_sig);
                            agg.log_hashes.insert(s.log_hash);
                            agg.state_hashes.extend(s.state_hashes.iter().copied());
                            if s.nontrivial {
                                agg.nontrivial_sigs.insert(s.log_hash);
                            }
                            agg.steps += s.steps;
                            agg.switches += s.switches;
                            agg.virt_ns += s.virt_ns;
                            for (k, v) in &s.probes {
                                *agg.probes.entry(k.clone()).or_default() += v;
                                if *v > 0 {
                                    *agg.probe_runs.entry(k.clone()).or_default() += 1;
                                }
                            }
                            for (k, v) in &s.faults {
                                *agg.faults.entry(k.clone()).or_default() += v;
                                if *v > 0 {
                                    *agg.fault_runs.entry(k.clone()).or_default() += 1;
                                }
                            }
                            *agg.families.entry(plan.family.clone()).or_default() += 1;
                            *agg.flavors.entry(format!("{:?}", plan.cfg.flavor)).or_default() += 1;
                            for v in s.violations {
                                if v.prop == prop {
                                    if agg.violations.len() < 40 {
                                        agg.violations.push((i, seed, v));
                                    }
                                } else {
                                    *agg.other_prop_violations.entry(format!("{}:{}", v.prop, v.rule)).or_default() += 1;
                                }
                            }
                            if agg.samples.len() < 1 && (s.nontrivial || i < workers as u64) && w < 3 {
                                let mut ps = plan_summary(&plan);
                                ps["end"] = serde_json::json!(s.end);
                                ps["steps"] = serde_json::json!(s.steps);
                                ps["context_switches"] = serde_json::json!(s.switches);
                                if s.nontrivial {
                                    agg.samples.clear();
                                }
                                agg.samples.push(ps);
                            }
                        }
                    }
                    i += workers as u64;
                }
                let bytes = serde_json::to_vec(&agg).unwrap();
                let mut f = std::fs::File::from_raw_fd(fds[1]);
                let _ = f.write_all(&bytes);
                let _ = f.flush();
                libc::_exit(0);
            }
            libc::close(fds[1]);
            pipes.push((fds[0], pid));
        }
    }
    let mut total = Agg::default();
    for (rfd, pid) in pipes {
        let mut f = unsafe { std::fs::File::from_raw_fd(rfd) };
        let mut buf = Vec::new();
        let _ = f.read_to_end(&mut buf);
        let mut status = 0;
        unsafe {
            libc::waitpid(pid, &mut status, 0);
        }
        match serde_json::from_slice::<Agg>(&buf) {
            Ok(a) => total.merge(a),
            Err(e) => total.crashed.push(format!("worker died: {} ({} bytes, status {:#x})", e, buf.len(), status)),
        }
    }
    total.violations.sort_by_key(|v| v.0);
    total
}

// ------------------------------------------------------------------------------------------
// replay files and minimisation
// ------------------------------------------------------------------------------------------

#[derive(Serialize, Deserialize, Clone, Debug)]
pub struct ReplayFile {
    pub property: String,
    pub rule: String,
    pub fingerprint: String,
    pub detail: String,
    pub seed: u64,
    pub expect_log_hash: u64,
    pub plan: Plan,
    pub choices: Vec<u32>,
    pub minimised: serde_json::Value,
    /// "default-features": found by (and to be replayed with) the harness built against the
    /// library's default feature set (`sync` only)
    #[serde(default, skip_serializing_if = "Option::is_none")]
    pub build: Option<String>,
}

fn same_violation(s: &RunSummary, prop: &str, rule: &str, fp: &str) -> Option<Violation> {
    s.violations.iter().find(|v| v.prop == prop && v.rule == rule && v.fingerprint == fp).cloned()
}

/// Plan-level delta debugging under the seeded schedule, then choice-level shrinking of the
/// recorded schedule.  Every candidate runs in a fresh forked child.
pub fn minimise(plan: &Plan, v: &Violation, props: &[String], budget: usize) -> Option<ReplayFile> {
    let mut tries = 0usize;
    let mut cur = plan.clone();
    let fails = |p: &Plan, ch: Option<Vec<u32>>, tries: &mut usize| -> Option<(RunSummary, Violation)> {
        *tries += 1;
        match run_forked(p, ch, true, props, false, child_timeout_ms()) {
            ChildResult::Ok(s) => {
                if std::env::var("DST_DEBUG_MIN").is_ok() {
                    eprintln!("minimise: child ok, end={} violations={:?}", s.end, s.violations.iter().map(|v| (v.prop.clone(), v.rule.clone(), v.fingerprint.clone())).collect::<Vec<_>>());
                }
                same_violation(&s, &v.prop, &v.rule, &v.fingerprint).map(|x| (s, x))
            }
            ChildResult::Crashed(m) => {
                if std::env::var("DST_DEBUG_MIN").is_ok() {
                    eprintln!("minimise: child crashed: {}", m);
                }
                None
            }
        }
    };
    let (mut best_sum, mut best_v) = fails(&cur, None, &mut tries)?;
    let orig_ops = cur.n_ops();
    // 1. drop chaos, stalls, eager clock, simplify the scheduler
    let mut simplifications: Vec<Box<dyn Fn(&mut Plan) -> bool>> = Vec::new();
    simplifications.push(Box::new(|p| {
        let had = p.sim.eager_clock_permille > 0;
        p.sim.eager_clock_permille = 0;
        had
    }));
    simplifications.push(Box::new(|p| {
        let had = !p.sim.stalls.is_empty();
        p.sim.stalls.clear();
        had
    }));
    simplifications.push(Box::new(|p| {
        let had = p.sim.stall_after_recv_permille > 0;
        p.sim.stall_after_recv_permille = 0;
        had
    }));
    simplifications.push(Box::new(|p| {
        let had = !p.chaos.is_empty();
        p.chaos.clear();
        had
    }));
    simplifications.push(Box::new(|p| {
        let had = !matches!(p.sim.mode, SchedMode::RandomWalk { stay_permille: 1000 });
        p.sim.mode = SchedMode::RandomWalk { stay_permille: 1000 };
        had
    }));
    simplifications.push(Box::new(|p| {
        let had = p.sim.epoch_phase_ns != 0;
        p.sim.epoch_phase_ns = 0;
        had
    }));
    for s in &simplifications {
        let mut cand = cur.clone();
        if s(&mut cand) {
            if let Some((sum, vv)) = fails(&cand, None, &mut tries) {
                cur = cand;
                best_sum = sum;
                best_v = vv;
            }
        }
    }
    // 2. drop whole clients, then chunks of ops, then single ops (keeping barrier counts aligned
    //    is not required: the controller tolerates clients that finish early)
    let mut progress = true;
    while progress && tries < budget {
        progress = false;
        if cur.clients.len() > 1 {
            for ci in (0..cur.clients.len()).rev() {
                let mut cand = cur.clone();
                cand.clients[ci].clear();
                if cur.clients[ci].is_empty() {
                    continue;
                }
                if let Some((sum, vv)) = fails(&cand, None, &mut tries) {
                    cur = cand;
                    best_sum = sum;
                    best_v = vv;
                    progress = true;
                }
            }
        }
        for ci in 0..cur.clients.len() {
            let mut chunk = (cur.clients[ci].len() / 2).max(1);
            while chunk >= 1 && tries < budget {
                let mut i = cur.clients[ci].len();
                while i > 0 && tries < budget {
                    let lo = i.saturating_sub(chunk);
                    let mut cand = cur.clone();
                    cand.clients[ci].drain(lo..i);
                    if let Some((sum, vv)) = fails(&cand, None, &mut tries) {
                        cur = cand;
                        best_sum = sum;
                        best_v = vv;
                        progress = true;
                    }
                    i = lo;
                    if i > cur.clients[ci].len() {
                        i = cur.clients[ci].len();
                    }
                }
                if chunk == 1 {
                    break;
                }
                chunk /= 2;
            }
        }
        for xi in (0..cur.chaos.len()).rev() {
            let mut cand = cur.clone();
            cand.chaos.remove(xi);
            if let Some((sum, vv)) = fails(&cand, None, &mut tries) {
                cur = cand;
                best_sum = sum;
                best_v = vv;
                progress = true;
            }
        }
    }
    // 3. choice-level: the recorded schedule of the minimised plan
    let mut choices = best_sum.choices.clone().unwrap_or_default();
    // all-zero schedule ("never preempt")?
    if let Some((sum, vv)) = fails(&cur, Some(vec![]), &mut tries) {
        choices = vec![];
        best_sum = sum;
        best_v = vv;
    } else {
        // truncate from the end, then zero blocks
        let mut len = choices.len();
        let mut step = (len / 2).max(1);
        while step >= 1 && tries < budget {
            if len > step {
                let cand: Vec<u32> = choices[..len - step].to_vec();
                if let Some((sum, vv)) = fails(&cur, Some(cand.clone()), &mut tries) {
                    choices = cand;
                    len = choices.len();
                    best_sum = sum;
                    best_v = vv;
                    continue;
                }
            }
            if step == 1 {
                break;
            }
            step /= 2;
        }
        let mut block = (choices.len() / 4).max(1);
        while block >= 1 && tries < budget {
            let mut i = 0;
            while i < choices.len() && tries < budget {
                let hi = (i + block).min(choices.len());
                if choices[i..hi].iter().any(|x| *x != 0) {
                    let mut cand = choices.clone();
                    for x in &mut cand[i..hi] {
                        *x = 0;
                    }
                    if let Some((sum, vv)) = fails(&cur, Some(cand.clone()), &mut tries) {
                        choices = cand;
                        best_sum = sum;
                        best_v = vv;
                    }
                }
                i = hi;
            }
            if block == 1 {
                break;
            }
            block /= 2;
        }
        // (trailing zeros are kept: beyond the end of the vector a select rotates its arms, so
        // "0" and "absent" are no longer the same pick)
    }
    // final confirmation with exactly the stored artefacts
    let (fin, fv) = fails(&cur, Some(choices.clone()), &mut tries)?;
    let _ = best_sum;
    let _ = best_v;
    Some(ReplayFile {
        property: v.prop.clone(),
        rule: v.rule.clone(),
        fingerprint: v.fingerprint.clone(),
        detail: fv.detail.clone(),
        seed: plan.seed,
        expect_log_hash: fin.log_hash,
        choices: choices.clone(),
        minimised: serde_json::json!({
            "ops_before": orig_ops,
            "ops_after": cur.n_ops(),
            "nonzero_choices": choices.iter().filter(|x| **x != 0).count(),
            "choice_len": choices.len(),
            "candidates_tried": tries,
        }),
        plan: cur,
        build: crate::check::build_label().map(|l| l.to_string()),
    })
}


/// C19: the same plan on `Cache` and on `AsyncCache`, in one child; results must agree.
fn execute_differential(plan: &Plan, choices: Option<Vec<u32>>, record: bool, props: &[String], dump: bool) -> RunSummary {
    let mut p_sync = plan.clone();
    p_sync.cfg.flavor = Flavor::Sync;
    p_sync.tags.retain(|t| t != "differential");
    let mut p_async = p_sync.clone();
    p_async.cfg.flavor = Flavor::Async;
    // the recorded choice vector covers both runs back to back: split by the drawn count of the first
    let (c1, c2) = match &choices {
        Some(v) => {
            let n1 = v.first().copied().unwrap_or(0) as usize;
            let rest = &v[1.min(v.len())..];
            let n1 = n1.min(rest.len());
            (Some(rest[..n1].to_vec()), Some(rest[n1..].to_vec()))
        }
        None => (None, None),
    };
    let run = |p: &Plan, ch: Option<Vec<u32>>, salt: u64| {
        let cfg = sim_cfg_of(p);
        let ch = match ch {
            Some(v) => Choices::from_vec(v),
            None => Choices::from_seed(p.seed ^ 0x5eed_5eed ^ salt),
        };
        let p2 = p.clone();
        let out = rt::run(cfg, ch, record, move || run_plan(&p2));
        (take_log(), out)
    };
    // every third pair compares Cache with AsyncCache on the single-task executor
    if plan.seed % 3 == 0 {
        p_async.cfg.flavor = Flavor::AsyncLocal;
    }
    let (ev_s, out_s) = run(&p_sync, c1, 0);
    let (ev_a, out_a) = run(&p_async, c2, 0xa5);
    let hs = Hist::new(&p_sync, &ev_s);
    let ha = Hist::new(&p_async, &ev_a);
    let mut res = oracle::check_all(&hs, &out_s, &[]);
    let r2 = oracle::check_all(&ha, &out_a, &[]);
    res.violations.extend(r2.violations);
    let d = crate::oracle_diff::compare(&hs, &ha);
    res.violations.extend(d.violations);
    res.nontrivial |= d.nontrivial;
    for (k, v) in d.probes {
        *res.probes.entry(k.to_string()).or_default() += v;
    }
    *res.probes.entry(if p_async.cfg.flavor == Flavor::AsyncLocal { "pair_sync_vs_single_task_executor" } else { "pair_sync_vs_task_per_future" }.to_string()).or_default() += 1;
    res.violations.retain(|v| props.iter().any(|p| *p == v.prop));
    let mut lh = 0xcbf29ce484222325u64;
    for e in ev_s.iter().chain(ev_a.iter()) {
        lh = fnv64(lh, &serde_json::to_vec(e).unwrap());
    }
    let mut faults = BTreeMap::new();
    faults.insert("time_advances".to_string(), out_s.counters.time_advances + out_a.counters.time_advances);
    faults.insert("select_arm_choices".to_string(), out_s.counters.select_choices + out_a.counters.select_choices);
    let dump_s = if dump {
        let mut s = String::new();
        for (name, evs, ep) in [("SYNC", &ev_s, out_s.epoch_ns), ("ASYNC", &ev_a, out_a.epoch_ns)] {
            s.push_str(&format!("==== {} ====\n", name));
            for e in evs.iter() {
                s.push_str(&format!("{:>5} t={:>12} {:<14} {}\n", e.seq, e.now.saturating_sub(ep), e.task, render_ev(&e.kind)));
            }
        }
        Some(s)
    } else {
        None
    };
    let choices_out = if record {
        let mut v = vec![out_s.choices.len() as u32];
        v.extend(out_s.choices.iter());
        v.extend(out_a.choices.iter());
        Some(v)
    } else {
        None
    };
    let state_hashes: Vec<u64> = hs.cps.iter().map(|c| fnv64(0xcbf29ce484222325, format!("{:?}", c.snap.entries.as_ref().map(|e| e.iter().map(|x| (x.index, x.ttl_ns > 0)).collect::<Vec<_>>())).as_bytes())).collect();
    RunSummary {
        end: format!("sync:{} async:{}", end_str(&out_s.end), end_str(&out_a.end)),
        violations: res.violations,
        log_hash: lh,
        sched_sig: out_s.sched_sig ^ out_a.sched_sig.rotate_left(17),
        steps: out_s.counters.steps + out_a.counters.steps,
        switches: out_s.counters.switches + out_a.counters.switches,
        virt_ns: (out_s.now_ns - out_s.epoch_ns) + (out_a.now_ns - out_a.epoch_ns),
        probes: res.probes,
        faults,
        nontrivial: res.nontrivial,
        state_hashes,
        n_events: ev_s.len() + ev_a.len(),
        choices: choices_out,
        choices_drawn: out_s.choices_drawn + out_a.choices_drawn,
        tasks: out_a.tasks,
        dump: dump_s,
    }
}

fn end_str(e: &End) -> String {
    match e {
        End::Completed => "completed".to_string(),
        End::Deadlock(s) => format!("deadlock {}", s),
        End::Stuck(s) => format!("stuck {}", s),
        End::StepLimit => "step_limit".to_string(),
        End::TimeLimit => "time_limit".to_string(),
    }
}
