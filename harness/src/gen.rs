//! Plan generators (swarm style: every run draws its own sizes, mixes and fault subsets).

use crate::plan::*;
use stretto_sim_rt::rt::Rng;

pub const SEC: u64 = 1_000_000_000;
pub const MS: u64 = 1_000_000;
pub const EPOCH_S: u64 = 1_700_000_000;

pub fn sim_plan(rng: &mut Rng, faulty: bool) -> SimPlan {
    let mode = match rng.below(10) {
        0..=5 => SchedMode::RandomWalk { stay_permille: rng.range(500, 970) as u32 },
        6..=8 => SchedMode::Pct { depth: rng.range(1, 4) as u32, est_steps: rng.range(50, 1500) as u32 },
        _ => SchedMode::RoundRobin { quantum: rng.range(1, 12) as u32 },
    };
    let mut stalls = Vec::new();
    let mut eager = 0;
    let mut after_recv = 0;
    if faulty {
        if rng.chance(1, 2) {
            after_recv = *rng.pick(&[50u32, 150, 300, 600]);
        }
        let n = rng.below(3);
        for _ in 0..n {
            stalls.push(StallPlan {
                at_step: rng.range(5, 1500),
                task: (*rng.pick(&["processor", "policy_worker", "processor", "c0", "c1"])).to_string(),
                for_steps: rng.range(10, 400),
                for_ns: 0,
            });
        }
        if rng.chance(1, 3) {
            eager = rng.range(5, 80) as u32;
        }
    }
    SimPlan {
        mode,
        eager_clock_permille: eager,
        throttle: *rng.pick(&[8u32, 16, 32, 64]),
        stalls,
        // sub-second phase plus a few hundred whole seconds: whatever the library derives from the
        // wall clock at construction (seeds) differs from run to run
        epoch_phase_ns: rng.below(SEC) + rng.below(600) * SEC,
        max_steps: 200_000,
        stall_after_recv_permille: after_recv,
        step_cost_ns: 0,
        cpus: 0,
    }
}

/// A stall in virtual time of one task (descheduled thread, slow callback): see sim-rt `Stall`.
pub fn vstall(rng: &mut Rng) -> StallPlan {
    StallPlan {
        at_step: rng.range(5, 700),
        task: (*rng.pick(&["processor", "processor", "c0", "c1", "c0"])).to_string(),
        for_steps: 0,
        for_ns: match rng.below(3) {
            0 => rng.range(100, 900) * MS,
            1 => rng.range(1000, 2500) * MS,
            _ => rng.range(2500, 5000) * MS,
        },
    }
}

pub fn pick_flavor(rng: &mut Rng) -> Flavor {
    if !cfg!(feature = "async_flavour") {
        // the harness built against the library's default feature set: `Cache` only
        let _ = rng.chance(1, 2);
        return Flavor::Sync;
    }
    if !cfg!(feature = "sync_flavour") {
        // ... against `async` alone: `AsyncCache` only
        let _ = rng.chance(1, 2);
        return Flavor::Async;
    }
    match std::env::var("DST_FLAVOR").ok().as_deref() {
        Some("sync") => Flavor::Sync,
        Some("async") => Flavor::Async,
        _ => {
            if rng.chance(1, 2) {
                Flavor::Sync
            } else {
                Flavor::Async
            }
        }
    }
}

/// flavour for single-client (lock-step) families: also the single-task executor
pub fn pick_flavor_l(rng: &mut Rng) -> Flavor {
    if !cfg!(feature = "async_flavour") {
        let _ = rng.below(20);
        return Flavor::Sync;
    }
    if !cfg!(feature = "sync_flavour") {
        return if rng.below(20) < 13 { Flavor::Async } else { Flavor::AsyncLocal };
    }
    match std::env::var("DST_FLAVOR").ok().as_deref() {
        Some("sync") => Flavor::Sync,
        Some("async") => Flavor::Async,
        Some("local") => Flavor::AsyncLocal,
        _ => match rng.below(20) {
            0..=7 => Flavor::Sync,
            8..=14 => Flavor::Async,
            _ => Flavor::AsyncLocal,
        },
    }
}

pub fn roomy_cfg(rng: &mut Rng, flavor: Flavor) -> Cfg {
    Cfg {
        flavor,
        num_counters: *rng.pick(&[64usize, 100, 1000, 37, 4096]),
        max_cost: 1_000_000,
        buffer_size: *rng.pick(&[64usize, 128, 1024, 32 * 1024]),
        buffer_items: *rng.pick(&[1usize, 2, 3, 8, 64]),
        metrics: rng.chance(1, 2),
        ignore_internal_cost: rng.chance(1, 2),
        cleanup_ms: *rng.pick(&[100u64, 250, 500, 500, 1000, 2000, 2000, 2000, 3000, 5000]),
        hasher_seed: rng.next_u64(),
        keys: KeyMode::Transparent,
        validator: Validator::Always,
        coster: false,
        callback: CallbackMode::Full,
        use_defaults: false,
        recipe: 0,
        decoy: false,
        reentrant_cb: false,
        tracing_on: false,
        cleanup_ns: 0,
        kb_build_key_only: false,
    }
}

fn gen_universe(rng: &mut Rng, n: usize) -> Vec<u64> {
    let mut u: Vec<u64> = Vec::new();
    while u.len() < n {
        let k = match rng.below(10) {
            0 => 0,
            1 => u64::MAX - rng.below(3),
            2 => 256 + rng.below(8), // shares a shard with a small key
            _ => rng.range(1, 24),
        };
        if !u.contains(&k) {
            u.push(k);
        }
    }
    u
}

pub fn gen_ttl_value(rng: &mut Rng) -> u64 {
    match rng.below(20) {
        0..=2 => rng.range(1, 999) * MS,
        3..=10 => rng.range(500, 3000) * MS,
        11 => SEC,
        12 => 2 * SEC,
        13 => SEC - 1,
        14 => SEC + 1,
        15..=17 => rng.range(3, 20) * SEC + rng.below(SEC),
        18 => match rng.below(4) {
            0 => rng.range(1, 3) * 3600 * SEC,
            // edge values: a few nanoseconds, just under a microsecond, decades
            1 => rng.range(1, 999),
            2 => rng.range(1, 60) * 365 * 86400 * SEC + rng.below(SEC),
            _ => rng.range(1, 999) * 1000 + rng.below(1000),
        },
        _ => rng.range(1, 5000) * MS + rng.below(MS),
    }
}

/// L family: one client in lock-step with quiescent barriers; TTL-centred (C03, C04, C05).
pub fn gen_ttl_family(prop: &str, seed: u64, faulty: bool) -> Plan {
    gen_ttl_family_c(prop, seed, faulty, false)
}

/// `conditional`: add insert_if_present operations and (often) a vetoing UpdateValidator (C09).
pub fn gen_ttl_family_c(prop: &str, seed: u64, faulty: bool, conditional: bool) -> Plan {
    let mut rng = Rng::new(seed ^ 0x77_11);
    let flavor = pick_flavor_l(&mut rng);
    let mut cfg = roomy_cfg(&mut rng, flavor);
    if conditional && rng.chance(6, 10) {
        cfg.validator = if rng.chance(1, 4) { Validator::Toggle } else { Validator::Mod { m: rng.range(2, 3), r: rng.below(2) } };
    }
    if rng.chance(1, 4) {
        // conflict-bearing keys without collisions: index = key, conflict hash non-zero (the
        // transparent builder's conflict is 0, which switches every conflict test off)
        cfg.keys = KeyMode::Collide { m: 0 };
    }
    let mut sim = sim_plan(&mut rng, faulty);
    if faulty && rng.chance(1, 3) {
        let v = vstall(&mut rng);
        sim.stalls.push(v);
        if rng.chance(1, 3) {
            let v = vstall(&mut rng);
            sim.stalls.push(v);
        }
    }
    let n_keys = rng.range(2, 8) as usize;
    let universe = gen_universe(&mut rng, n_keys);
    let cleanup = cfg.cleanup_ms * MS;
    let mut ops: Vec<Op> = Vec::new();
    let mut now = EPOCH_S * SEC + sim.epoch_phase_ns;
    let start = now;
    let budget = 70 * SEC;
    // generator-side view of deadlines (exact in the fault-free configuration)
    let mut deadlines: Vec<u64> = Vec::new();
    let steps = if THOROUGH.load(std::sync::atomic::Ordering::SeqCst) { rng.range(5, 60) } else { rng.range(5, 28) };
    let mut writes = 0usize;
    for _ in 0..steps {
        if conditional && rng.chance(22, 100) {
            let k = *rng.pick(&universe);
            ops.push(Op::InsertIfPresent { k, cost: rng.range(1, 5) as i64, size: rng.range(1, 9) as u32 });
            writes += 1;
            ops.push(Op::Barrier);
            if rng.chance(1, 2) {
                ops.push(probe(&mut rng, k));
            }
            continue;
        }
        match rng.below(100) {
            0..=34 => {
                let k = *rng.pick(&universe);
                let ttl = if rng.chance(45, 100) { 0 } else { gen_ttl_value(&mut rng) };
                ops.push(Op::Insert { k, cost: rng.range(1, 5) as i64, ttl_ns: ttl, size: rng.range(1, 9) as u32 });
                writes += 1;
                if ttl > 0 {
                    deadlines.push(now + ttl);
                }
                if rng.chance(85, 100) {
                    ops.push(Op::Barrier);
                } else {
                    // a second write on another key before the barrier
                    let k2 = *rng.pick(&universe);
                    if k2 != k {
                        let ttl2 = if rng.chance(1, 2) { 0 } else { gen_ttl_value(&mut rng) };
                        ops.push(Op::Insert { k: k2, cost: rng.range(1, 5) as i64, ttl_ns: ttl2, size: 1 });
                        writes += 1;
                        if ttl2 > 0 {
                            deadlines.push(now + ttl2);
                        }
                    }
                    ops.push(Op::Barrier);
                }
            }
            35..=41 => {
                ops.push(Op::Remove { k: *rng.pick(&universe) });
                writes += 1;
                ops.push(Op::Barrier);
            }
            42..=44 => {
                ops.push(Op::Clear);
                ops.push(Op::Barrier);
            }
            45..=69 => {
                if rng.chance(1, 3) {
                    for k in &universe {
                        ops.push(probe(&mut rng, *k));
                    }
                } else {
                    let k = *rng.pick(&universe);
                    ops.push(probe(&mut rng, k));
                }
            }
            _ => {
                if now - start > budget {
                    continue;
                }
                let jitter = *rng.pick(&[-1i64, 0, 1, 0, 1, 500_000]);
                let target = match rng.below(10) {
                    0..=2 => (now / SEC + 1) * SEC,
                    3..=5 if !deadlines.is_empty() => *rng.pick(&deadlines),
                    6..=7 if !deadlines.is_empty() => *rng.pick(&deadlines) + SEC + cleanup + MS,
                    _ => now + rng.range(1, 2500) * MS,
                };
                let target = (target as i64 + jitter) as u64;
                if target > now && target - now < 25 * SEC {
                    let d = target - now;
                    if faulty && rng.chance(1, 3) {
                        ops.push(Op::Jump { ns: d });
                    } else {
                        ops.push(Op::Sleep { ns: d });
                    }
                    now = target;
                    if rng.chance(2, 3) {
                        ops.push(Op::Barrier);
                    }
                }
            }
        }
    }
    if faulty && rng.chance(1, 4) {
        ops.push(Op::Jump { ns: rng.range(1, 3) * 3600 * SEC });
    }
    // faults stop here; let every short deadline pass and be swept, then probe everything
    if faulty {
        ops.push(Op::FaultsOff);
    }
    for k in &universe {
        ops.push(probe(&mut rng, *k));
    }
    ops.push(Op::Barrier);
    let settle = SEC + cleanup + MS;
    if rng.chance(4, 5) {
        ops.push(Op::Sleep { ns: rng.range(500, 3500) * MS });
        ops.push(Op::Barrier);
    }
    ops.push(Op::Sleep { ns: settle });
    ops.push(Op::Barrier);
    ops.push(Op::Sleep { ns: settle });
    ops.push(Op::Barrier);
    for k in &universe {
        ops.push(Op::Get { k: *k, hold: 0 });
    }
    ops.push(Op::Len);
    cfg.buffer_size = cfg.buffer_size.max(writes + 8);
    let mut tags = vec!["lockstep".to_string(), "under_capacity".to_string()];
    if !faulty {
        tags.push("fault_free".into());
    }
    Plan {
        prop: prop.into(),
        family: if faulty { "L-ttl-faulty".into() } else { "L-ttl".into() },
        seed,
        cfg,
        sim,
        clients: vec![ops],
        chaos: vec![],
        finale: Finale::None,
        universe,
        tags,
    }
}

fn probe(rng: &mut Rng, k: u64) -> Op {
    match rng.below(10) {
        0..=5 => Op::Get { k, hold: if rng.chance(1, 5) { rng.range(1, 4) as u32 } else { 0 } },
        6..=8 => Op::GetTtl { k },
        _ => Op::GetMut { k, write: false, size: 0, hold: 0 },
    }
}

/// Knobs of the concurrent-clients (P) family.
#[derive(Clone, Debug)]
pub struct PProfile {
    pub clients: (u64, u64),
    pub keys: (u64, u64),
    pub ops: (u64, u64),
    /// small max_cost so that evictions and rejections happen
    pub over_capacity_pct: u64,
    pub ttl_pct: u64,
    pub collide_pct: u64,
    pub validator_pct: u64,
    pub get_mut_write: bool,
    pub if_present_pct: u64,
    pub remove_pct: u64,
    pub wait_pct: u64,
    pub lookup_pct: u64,
    pub chaos_clear_pct: u64,
    pub chaos_close_pct: u64,
    pub chaos_umc_pct: u64,
    pub inline_clear_pct: u64,
    pub small_buffer_pct: u64,
    pub metrics_on: bool,
    pub sleeps: bool,
    pub faulty_pct: u64,
    pub finale_close_pct: u64,
    pub finale_drop_pct: u64,
    pub barrier_every: (u64, u64),
    pub coster_pct: u64,
    pub exit_only_cb_pct: u64,
    pub wide_config: bool,
    /// share of get_ttl among lookups, in tenths
    pub get_ttl_tenths: u64,
    /// % of runs with one or two stalls in virtual time
    pub vstall_pct: u64,
    /// TTLs from a narrow band (deadlines of different writes share a one-second bucket)
    pub ttl_narrow: bool,
    /// let every pending deadline pass at the end and look again
    pub settle: bool,
    /// all keys live in one shard (k ≡ r mod 256): the shard's table grows and moves its entries
    pub same_shard: bool,
    /// half of the lookups are get_mut
    pub get_mut_heavy: bool,
    /// async flavour on per-task executors only; % of removes / waits whose future is cancelled
    pub cancel_pct: u64,
    /// % of barriers after which the application resets the metrics itself (metrics.clear())
    pub metrics_reset_pct: u64,
    /// single-task executor (one client): everything - client, processor, policy worker - shares one thread
    pub force_local: bool,
    /// every handle is dropped the moment the clients are done - no quiescence first, so items
    /// may still be buffered
    pub drop_busy: bool,
    /// % of lookups during whose hold the same client calls close()
    pub hold_close_pct: u64,
    /// % of lookups during whose hold the same client calls max_cost()/update_max_cost()
    pub hold_umc_pct: u64,
    /// % of lookups during whose hold the same client calls insert_if_present / get_ttl on a key of
    /// ANOTHER shard (transparent keys only): legal, since only that other shard is locked
    pub hold_other_pct: u64,
}

impl Default for PProfile {
    fn default() -> Self {
        PProfile {
            clients: (2, 4),
            keys: (2, 8),
            ops: (4, 24),
            over_capacity_pct: 50,
            ttl_pct: 25,
            collide_pct: 10,
            validator_pct: 0,
            get_mut_write: false,
            if_present_pct: 8,
            remove_pct: 15,
            wait_pct: 3,
            lookup_pct: 30,
            chaos_clear_pct: 0,
            chaos_close_pct: 0,
            chaos_umc_pct: 0,
            inline_clear_pct: 0,
            small_buffer_pct: 0,
            metrics_on: false,
            sleeps: true,
            faulty_pct: 30,
            finale_close_pct: 0,
            finale_drop_pct: 0,
            barrier_every: (2, 7),
            coster_pct: 20,
            exit_only_cb_pct: 0,
            wide_config: false,
            get_ttl_tenths: 1,
            vstall_pct: 0,
            ttl_narrow: false,
            settle: false,
            same_shard: false,
            get_mut_heavy: false,
            cancel_pct: 0,
            drop_busy: false,
            force_local: false,
            metrics_reset_pct: 0,
            hold_close_pct: 0,
            hold_umc_pct: 0,
            hold_other_pct: 0,
        }
    }
}

/// set by `dst check --tier thorough`: longer scripts and larger key universes
pub static THOROUGH: std::sync::atomic::AtomicBool = std::sync::atomic::AtomicBool::new(false);

pub fn profile_for(prop: &str) -> PProfile {
    let mut p = profile_for_quick(prop);
    if THOROUGH.load(std::sync::atomic::Ordering::SeqCst) {
        p.ops.1 *= 2;
        p.keys.1 += 4;
    }
    p
}

fn profile_for_quick(prop: &str) -> PProfile {
    let d = PProfile::default();
    match prop {
        "C01" => PProfile { over_capacity_pct: 85, chaos_umc_pct: 50, chaos_clear_pct: 10, if_present_pct: 12, collide_pct: 5, vstall_pct: 15, hold_umc_pct: 6, ..d },
        "C02" => PProfile { hold_other_pct: 5, keys: (1, 5), get_mut_write: true, chaos_clear_pct: 25, collide_pct: 30, lookup_pct: 35, validator_pct: 15, wait_pct: 12, ..d },
        "C06" => PProfile { chaos_clear_pct: 30, over_capacity_pct: 60, ttl_pct: 35, small_buffer_pct: 25, vstall_pct: 20, metrics_reset_pct: 12, ..d },
        "C07" => PProfile { clients: (1, 3), keys: (4, 16), over_capacity_pct: 100, lookup_pct: 50, ttl_pct: 5, remove_pct: 5, chaos_umc_pct: 20, ops: (10, 40), collide_pct: 0, exit_only_cb_pct: 10, ..d },
        "C08" => PProfile { chaos_clear_pct: 15, chaos_close_pct: 20, over_capacity_pct: 60, exit_only_cb_pct: 20, ttl_pct: 30, vstall_pct: 20, ..d },
        "C10" => PProfile { wait_pct: 25, chaos_clear_pct: 35, chaos_close_pct: 35, small_buffer_pct: 50, lookup_pct: 10, ops: (3, 12), ..d },
        "C11" => PProfile { chaos_clear_pct: 70, inline_clear_pct: 10, metrics_on: true, ops: (3, 14), ..d },
        "C12" => PProfile { chaos_close_pct: 70, chaos_clear_pct: 40, finale_close_pct: 50, finale_drop_pct: 40, wait_pct: 8, ops: (2, 10), small_buffer_pct: 30, hold_close_pct: 12, ..d },
        "C13" => PProfile { lookup_pct: 75, keys: (1, 12), wide_config: true, chaos_clear_pct: 15, over_capacity_pct: 20, ops: (8, 40), remove_pct: 3, ..d },
        "C15" => PProfile { lookup_pct: 75, keys: (1, 8), wide_config: true, metrics_on: true, ops: (8, 40), remove_pct: 3, chaos_close_pct: 15, ..d },
        "C17" => PProfile { metrics_on: true, inline_clear_pct: 10, over_capacity_pct: 60, small_buffer_pct: 30, ..d },
        "C18" => PProfile { collide_pct: 100, keys: (2, 6), get_mut_write: true, ttl_pct: 50, get_ttl_tenths: 4, lookup_pct: 40, ..d },
        "C20" => PProfile { hold_other_pct: 5, wide_config: true, ops: (3, 14), metrics_on: false, over_capacity_pct: 50, ..d },
        _ => d,
    }
}

fn chaos_step(rng: &mut Rng) -> u64 {
    match rng.below(4) {
        0 => rng.range(1, 40),
        1 => rng.range(20, 200),
        _ => rng.range(50, 900),
    }
}

/// P family: 1–4 client tasks with independent scripts over a small shared key universe,
/// optional chaos tasks, global quiescent barriers every few operations.
pub fn gen_p_family(prop: &str, seed: u64, pf: &PProfile) -> Plan {
    let mut rng = Rng::new(seed ^ 0x9a_77);
    let flavor = pick_flavor(&mut rng);
    let flavor = if pf.cancel_pct > 0 { Flavor::Async } else { flavor };
    let flavor = if pf.force_local && std::env::var("DST_FLAVOR").is_err() { Flavor::AsyncLocal } else { flavor };
    let faulty = rng.chance(pf.faulty_pct, 100);
    let mut sim = sim_plan(&mut rng, faulty);
    if rng.chance(pf.vstall_pct, 100) {
        let v = vstall(&mut rng);
        sim.stalls.push(v);
        if rng.chance(1, 3) {
            let v = vstall(&mut rng);
            sim.stalls.push(v);
        }
    }
    let narrow_base = rng.range(1, 3) * SEC;
    let n_clients = rng.range(pf.clients.0, pf.clients.1) as usize;
    let n_keys = rng.range(pf.keys.0, pf.keys.1) as usize;
    let mut cfg = roomy_cfg(&mut rng, flavor);
    cfg.metrics = pf.metrics_on || rng.chance(1, 3);
    let mut tags: Vec<String> = vec![];
    let collide = rng.chance(pf.collide_pct, 100);
    let universe: Vec<u64> = if collide {
        let m = rng.range(1, 4);
        cfg.keys = KeyMode::Collide { m };
        tags.push("collide".into());
        // keys 1.. so that several share an index
        let mut u: Vec<u64> = Vec::new();
        while u.len() < n_keys {
            let k = rng.range(1, (2 * n_keys as u64).max(12));
            if !u.contains(&k) {
                u.push(k);
            }
        }
        u
    } else if pf.same_shard {
        let r = rng.below(256);
        let mut u: Vec<u64> = Vec::new();
        while u.len() < n_keys {
            let k = r + 256 * rng.below(40);
            if !u.contains(&k) {
                u.push(k);
            }
        }
        tags.push("same_shard".into());
        u
    } else {
        gen_universe(&mut rng, n_keys)
    };
    if rng.chance(pf.validator_pct, 100) {
        cfg.validator = if rng.chance(1, 4) { Validator::Toggle } else { Validator::Mod { m: rng.range(2, 4), r: rng.below(2) } };
        tags.push("validator".into());
    }
    cfg.coster = rng.chance(pf.coster_pct, 100);
    if rng.chance(pf.exit_only_cb_pct, 100) {
        cfg.callback = if rng.chance(1, 2) { CallbackMode::ExitOnly } else { CallbackMode::ExitEvict };
    }
    let over = rng.chance(pf.over_capacity_pct, 100);
    let item = if cfg.ignore_internal_cost { 0 } else { 72 };
    let max_item_cost: i64 = rng.range(1, 12) as i64;
    if over {
        // room for roughly 1..n_keys entries
        let slots = rng.range(1, (n_keys as u64).max(2)) as i64;
        cfg.max_cost = slots * (item + max_item_cost / 2 + 1) + rng.below(5) as i64;
        tags.push("over_capacity".into());
    } else {
        tags.push("under_capacity".into());
    }
    if pf.wide_config {
        cfg.num_counters = match rng.below(10) {
            0..=5 => rng.range(1, 70) as usize,
            6 => 1,
            7 => 2,
            8 => *rng.pick(&[128usize, 1000, 4096, 100_000]),
            // now and then the sizes the README suggests for a real deployment ("10x the items":
            // millions of counters): rows of megabytes, masks of more than 21 bits
            _ => {
                if rng.chance(1, 4) {
                    *rng.pick(&[(1usize << 21) + 1, 3 << 20, 10_000_000])
                } else {
                    *rng.pick(&[128usize, 1000, 4096, 100_000])
                }
            }
        };
        cfg.buffer_items = *rng.pick(&[0usize, 1, 1, 2, 3, 4, 8, 64]);
        cfg.cleanup_ms = *rng.pick(&[1u64, 10, 100, 500, 2000, 5000]);
        if prop == "C20" {
            cfg.max_cost = match rng.below(12) {
                0 => -(rng.range(1, 100) as i64),
                1 => 1,
                2 => 0,
                3..=6 => cfg.max_cost,
                _ => rng.range(1, 400) as i64,
            };
            cfg.buffer_size = match rng.below(12) {
                0 => 0,
                1..=3 => 1,
                4..=6 => rng.range(2, 8) as usize,
                _ => cfg.buffer_size,
            };
            if rng.chance(1, 25) {
                cfg.num_counters = 0;
            }
        }
    }
    if rng.chance(pf.small_buffer_pct, 100) {
        cfg.buffer_size = rng.range(1, 4) as usize;
        tags.push("small_buffer".into());
    }
    let total_ops = rng.range(pf.ops.0, pf.ops.1);
    let barrier_every = rng.range(pf.barrier_every.0, pf.barrier_every.1);
    let phases = (total_ops / barrier_every).max(1);
    let mut clients: Vec<Vec<Op>> = vec![Vec::new(); n_clients];
    let mut writes = 0usize;
    let mut has_clear = false;
    for ph in 0..phases {
        for (ci, script) in clients.iter_mut().enumerate() {
            let n = rng.range(1, barrier_every.max(1));
            for _ in 0..n {
                let k = *rng.pick(&universe);
                let r = rng.below(100);
                let mut acc = 0;
                let mut pickp = |p: u64| {
                    acc += p;
                    r < acc
                };
                if pf.vstall_pct > 0 && sim.stalls.iter().any(|s| s.for_ns > 0) && rng.chance(4, 100) {
                    // this client will be stalled somewhere inside its next operation
                    script.push(Op::StallSelf { ns: rng.range(100, 3000) * MS, skip: rng.below(10) as u32 });
                }
                if pickp(pf.lookup_pct) {
                    // (async flavours only: there close() hands its signal to a one-slot channel and
                    // returns; the sync close() is a rendezvous with the processor, which may itself
                    // be waiting for the shard the caller keeps locked - holding a reference across a
                    // blocking call is the caller's deadlock, like across wait() or clear())
                    if cfg.flavor != Flavor::Sync && rng.chance(pf.hold_close_pct, 100) {
                        script.push(Op::WhileHolding { what: 0, v: 0 });
                    } else if rng.chance(pf.hold_umc_pct, 100) {
                        script.push(Op::WhileHolding { what: 1 + rng.below(2) as u8, v: (cfg.max_cost / 2 + rng.range(1, 60) as i64).max(1) });
                    } else if pf.hold_other_pct > 0 && matches!(cfg.keys, KeyMode::Transparent) && rng.chance(pf.hold_other_pct, 100) {
                        // (shard = index % 256, index = key for transparent keys)
                        // (and only upwards: the clients keep a lock order among themselves)
                        let others: Vec<u64> = universe.iter().copied().filter(|o| o % 256 > k % 256).collect();
                        if !others.is_empty() {
                            let k2 = *rng.pick(&others);
                            script.push(Op::WhileHolding { what: 3 + rng.below(2) as u8, v: k2 as i64 });
                        }
                    }
                    script.push(match if rng.below(10) < pf.get_ttl_tenths { 7 } else if pf.get_mut_heavy && rng.chance(1, 2) { 9 } else { rng.below(10) } {
                        0..=6 => Op::Get { k, hold: if rng.chance(1, 6) { rng.range(1, 5) as u32 } else { 0 } },
                        7 => Op::GetTtl { k },
                        _ => Op::GetMut { k, write: pf.get_mut_write && rng.chance(1, 2), size: rng.range(1, 9) as u32, hold: if rng.chance(1, 6) { rng.range(1, 3) as u32 } else { 0 } },
                    });
                } else if pickp(pf.remove_pct) {
                    if rng.chance(pf.cancel_pct, 100) {
                        script.push(Op::CancelNext { after: rng.below(3) as u32 });
                    }
                    script.push(Op::Remove { k });
                    writes += 1;
                } else if pickp(pf.if_present_pct) {
                    script.push(Op::InsertIfPresent { k, cost: if cfg.coster && rng.chance(1, 3) { 0 } else { rng.range(1, max_item_cost as u64) as i64 }, size: rng.range(1, 9) as u32 });
                    writes += 1;
                } else if pickp(pf.wait_pct) {
                    if rng.chance(pf.cancel_pct, 100) {
                        script.push(Op::CancelNext { after: rng.below(3) as u32 });
                    }
                    script.push(Op::Wait);
                } else if pickp(pf.inline_clear_pct) && ci == 0 {
                    script.push(Op::Clear);
                    has_clear = true;
                } else if pf.sleeps && rng.chance(4, 100) {
                    script.push(Op::Sleep { ns: rng.range(1, 2500) * MS });
                } else {
                    let ttl = if !rng.chance(pf.ttl_pct, 100) { 0 } else if pf.ttl_narrow { narrow_base + rng.range(50, 950) * MS } else { gen_ttl_value(&mut rng).min(20 * SEC) };
                    let cost = if cfg.coster && rng.chance(1, 3) {
                        0
                    } else if rng.chance(1, 40) {
                        // enormous but representable costs (sums stay far below i64::MAX; see DESIGN.md §7)
                        *rng.pick(&[1i64 << 40, (1i64 << 40) + 7, 1i64 << 33])
                    } else if rng.chance(1, 14) {
                        0 // no Coster: a charged cost of exactly zero when internal cost is ignored
                    } else if over && rng.chance(1, 12) {
                        cfg.max_cost + rng.range(0, 3) as i64 // near/over the whole capacity
                    } else {
                        rng.range(1, max_item_cost as u64) as i64
                    };
                    script.push(Op::Insert { k, cost, ttl_ns: ttl, size: rng.range(1, 9) as u32 });
                    writes += 1;
                }
            }
            if ph + 1 < phases || rng.chance(1, 2) {
                script.push(Op::Barrier);
                if ci == 0 && cfg.metrics && pf.metrics_reset_pct > 0 && rng.chance(pf.metrics_reset_pct, 100) {
                    script.push(Op::MetricsReset);
                }
            }
        }
        // keep barrier counts aligned
        let maxb = clients.iter().map(|c| c.iter().filter(|o| matches!(o, Op::Barrier)).count()).max().unwrap_or(0);
        for c in clients.iter_mut() {
            while c.iter().filter(|o| matches!(o, Op::Barrier)).count() < maxb {
                c.push(Op::Barrier);
            }
        }
    }
    if pf.sleeps && rng.chance(1, 3) {
        // let TTLs pass at the end
        clients[0].push(Op::Sleep { ns: rng.range(1000, 6000) * MS });
    }
    let mut chaos = Vec::new();
    if rng.chance(pf.chaos_clear_pct, 100) {
        let n = rng.range(1, 3);
        for _ in 0..n {
            chaos.push(Chaos { at_step: chaos_step(&mut rng), op: Op::Clear });
        }
        has_clear = true;
    }
    if rng.chance(pf.chaos_umc_pct, 100) {
        let n = rng.range(1, 3);
        for _ in 0..n {
            let v = match rng.below(4) {
                0 => cfg.max_cost / 2 + 1,
                1 => cfg.max_cost * 2,
                2 => rng.range(1, 200) as i64,
                _ => cfg.max_cost + rng.range(0, 80) as i64 - 40,
            };
            chaos.push(Chaos { at_step: chaos_step(&mut rng), op: Op::UpdateMaxCost { v: v.max(1) } });
        }
        tags.push("max_cost_changes".into());
    }
    if rng.chance(pf.chaos_close_pct, 100) {
        let n = rng.range(1, 3);
        for _ in 0..n {
            chaos.push(Chaos { at_step: chaos_step(&mut rng), op: Op::Close });
        }
        tags.push("close".into());
    }
    if has_clear {
        tags.push("clear".into());
    }
    if pf.drop_busy {
        tags.push("drop_busy".into());
    }
    let finale = if pf.drop_busy {
        Finale::DropAll
    } else {
        let r = rng.below(100);
        if r < pf.finale_close_pct {
            Finale::Close
        } else if r < pf.finale_close_pct + pf.finale_drop_pct {
            Finale::DropAll
        } else {
            Finale::None
        }
    };
    if !tags.iter().any(|t| t == "small_buffer") && !(prop == "C20" && cfg.buffer_size <= 8) {
        cfg.buffer_size = cfg.buffer_size.max(writes + n_clients * 4 + 8);
    }
    if faulty {
        tags.push("faulty".into());
    }
    if prop == "C10" {
        tags.push("snap_at_wait".into());
    }
    if pf.settle {
        tags.push("settle_ttl".into());
    }
    if sim.stalls.iter().any(|s| s.for_ns > 0) {
        tags.push("vstall".into());
    }
    if prop == "C20" {
        tags.push("final_probe".into());
    }
    Plan { prop: prop.into(), family: "P".into(), seed, cfg, sim, clients, chaos, finale, universe, tags }
}

/// C19: a lock-step script with a quiescent barrier after every operation, run on both flavours.
pub fn gen_diff(seed: u64, variant: u64) -> Plan {
    let mut p = match variant % 3 {
        0 => gen_ttl_family_c("C19", seed, false, true),
        1 => gen_p_family("C19", seed, &PProfile { clients: (1, 1), faulty_pct: 0, chaos_clear_pct: 0, inline_clear_pct: 6, collide_pct: 15, validator_pct: 25, coster_pct: 40, metrics_on: true, over_capacity_pct: 70, wait_pct: 5, ops: (6, 30), ..PProfile::default() }),
        _ => gen_ttl_family("C19", seed, false),
    };
    p.prop = "C19".into();
    p.family = format!("L-diff/{}", p.family);
    let mut ops = Vec::new();
    for o in p.clients[0].iter() {
        if matches!(o, Op::Barrier) {
            continue;
        }
        ops.push(o.clone());
        ops.push(Op::Barrier);
    }
    p.clients = vec![ops];
    p.sim.stalls.clear();
    p.sim.eager_clock_permille = 0;
    p.cfg.buffer_size = p.cfg.buffer_size.max(64);
    p.tags.push("differential".into());
    p
}

/// C18(b): the exact-map lock-step family on real key types with the library's key builders.
pub fn gen_c18_typed(seed: u64) -> Plan {
    let mut rng = Rng::new(seed ^ 0x7e9d);
    let ty = *rng.pick(&["i8", "i16", "i32", "i64", "isize", "u8", "u16", "u32", "u64", "usize", "string", "string", "i32", "i64", "boxstr", "arcstr"]);
    let mut p = gen_ttl_family("C18", seed, false);
    let (bits, signed) = match ty {
        "i8" => (8, true),
        "i16" => (16, true),
        "i32" => (32, true),
        "i64" | "isize" => (64, true),
        "u8" => (8, false),
        "u16" => (16, false),
        "u32" => (32, false),
        _ => (64, false),
    };
    let pool: Vec<u64> = if matches!(ty, "string" | "boxstr" | "arcstr") {
        (1..=24).collect()
    } else if signed {
        let min: i64 = if bits == 64 { i64::MIN } else { -(1i64 << (bits - 1)) };
        let max: i64 = if bits == 64 { i64::MAX } else { (1i64 << (bits - 1)) - 1 };
        [min, min + 1, -3, -2, -1, 0, 1, 2, 3, max - 1, max, max / 2, min / 2].iter().map(|v| *v as u64).collect()
    } else {
        let max: u64 = if bits == 64 { u64::MAX } else { (1u64 << bits) - 1 };
        vec![0, 1, 2, 3, max - 1, max, max / 2, max / 2 + 1, 255.min(max), 256.min(max)]
    };
    // remap the plan's keys onto the type's pool
    let old = p.universe.clone();
    let mut new_u: Vec<u64> = Vec::new();
    for _ in 0..old.len() {
        loop {
            let k = *rng.pick(&pool);
            if !new_u.contains(&k) {
                new_u.push(k);
                break;
            }
        }
    }
    let map = |k: u64| -> u64 { new_u[old.iter().position(|x| *x == k).unwrap_or(0)] };
    for op in p.clients[0].iter_mut() {
        match op {
            Op::Insert { k, .. } | Op::InsertIfPresent { k, .. } | Op::Remove { k } | Op::Get { k, .. } | Op::GetMut { k, .. } | Op::GetTtl { k } => *k = map(*k),
            _ => {}
        }
    }
    p.universe = new_u;
    p.cfg.keys = KeyMode::Typed { ty: ty.to_string() };
    p.family = format!("L-typed/{}", ty);
    p.tags.push("typed".into());
    p
}

/// C18(a): lock-step script over keys forced to share index hashes.
pub fn gen_c18_lockstep(seed: u64) -> Plan {
    let mut rng = Rng::new(seed ^ 0xc18);
    let flavor = pick_flavor_l(&mut rng);
    let mut cfg = roomy_cfg(&mut rng, flavor);
    let faulty = rng.chance(1, 4);
    let sim = sim_plan(&mut rng, faulty);
    let m = rng.range(1, 3);
    cfg.keys = KeyMode::Collide { m };
    let n_keys = rng.range(2, 6) as usize;
    let mut universe: Vec<u64> = Vec::new();
    while universe.len() < n_keys {
        let k = rng.range(1, (2 * n_keys as u64).max(12));
        if !universe.contains(&k) {
            universe.push(k);
        }
    }
    let mut ops = Vec::new();
    let steps = rng.range(6, 30);
    let mut writes = 0;
    for _ in 0..steps {
        let k = *rng.pick(&universe);
        match rng.below(100) {
            0..=34 => {
                ops.push(Op::Insert { k, cost: rng.range(1, 5) as i64, ttl_ns: 0, size: rng.range(1, 9) as u32 });
                ops.push(Op::Barrier);
                writes += 1;
            }
            35..=46 => {
                ops.push(Op::Remove { k });
                ops.push(Op::Barrier);
                writes += 1;
            }
            47..=54 => {
                ops.push(Op::InsertIfPresent { k, cost: rng.range(1, 5) as i64, size: rng.range(1, 9) as u32 });
                ops.push(Op::Barrier);
                writes += 1;
            }
            55..=60 => {
                ops.push(Op::GetMut { k, write: true, size: rng.range(1, 9) as u32, hold: 0 });
                ops.push(Op::Barrier);
            }
            61..=70 => {
                for k in &universe {
                    ops.push(Op::Get { k: *k, hold: 0 });
                }
            }
            _ => ops.push(probe(&mut rng, k)),
        }
    }
    ops.push(Op::Barrier);
    for k in &universe {
        ops.push(Op::Get { k: *k, hold: 0 });
    }
    cfg.buffer_size = cfg.buffer_size.max(writes + 8);
    Plan { prop: "C18".into(), family: "L-collide".into(), seed, cfg, sim, clients: vec![ops], chaos: vec![], finale: Finale::None, universe, tags: vec!["lockstep".into(), "under_capacity".into(), "collide".into()] }
}


/// "Late arrival" family (C05): some long-lived TTL entries keep several expiry buckets alive and
/// the cleanup ticking; then one client writes a short-TTL entry and is stalled for seconds of
/// virtual time at a chosen scheduling point INSIDE that insert (after the deadline was computed,
/// before the item is listed / queued), or the processor is.  The entry arrives in a bucket whose
/// turn has already passed; it still has to be reclaimed within the bound, counted from its
/// arrival.
pub fn gen_late(prop: &str, seed: u64) -> Plan {
    let mut rng = Rng::new(seed ^ 0x1a7e);
    let flavor = pick_flavor_l(&mut rng);
    let mut cfg = roomy_cfg(&mut rng, flavor);
    cfg.cleanup_ms = *rng.pick(&[100u64, 200, 250, 500, 1000, 1000, 2000]);
    let mut sim = sim_plan(&mut rng, false);
    let n_fill = rng.range(2, 6) as usize;
    let mut universe: Vec<u64> = Vec::new();
    while universe.len() < n_fill + 2 {
        let k = match rng.below(3) {
            0 => rng.range(1, 40),
            1 => 256 + rng.below(64),
            _ => rng.range(1000, 100_000),
        };
        if !universe.contains(&k) {
            universe.push(k);
        }
    }
    let mut ops: Vec<Op> = Vec::new();
    let mut writes = 0usize;
    // fillers: distinct seconds, far enough out to survive the whole run
    let mut secs: Vec<u64> = Vec::new();
    for i in 0..n_fill {
        let mut s = rng.range(12, 40);
        while secs.contains(&s) {
            s += 1;
        }
        secs.push(s);
        ops.push(Op::Insert { k: universe[i], cost: rng.range(1, 4) as i64, ttl_ns: s * SEC + rng.below(SEC), size: 1 });
        writes += 1;
    }
    ops.push(Op::Barrier);
    // let a few sweeps go by
    ops.push(Op::Sleep { ns: rng.range(1000, 4000) * MS + rng.below(MS) });
    ops.push(Op::Barrier);
    let rounds = rng.range(1, 3);
    for r in 0..rounds {
        let k = universe[n_fill + (r as usize % 2)];
        if rng.chance(1, 3) {
            // the key is resident already: the late write is an in-place update
            ops.push(Op::Insert { k, cost: 1, ttl_ns: if rng.chance(1, 2) { 0 } else { rng.range(5, 30) * SEC }, size: 2 });
            writes += 1;
            ops.push(Op::Barrier);
        }
        let stall = rng.range(1200, 4500) * MS;
        if rng.chance(3, 4) {
            ops.push(Op::StallSelf { ns: stall, skip: rng.below(9) as u32 });
        } else {
            sim.stalls.push(StallPlan { at_step: 0, task: "processor".into(), for_steps: 0, for_ns: stall });
        }
        ops.push(Op::Insert { k, cost: rng.range(1, 4) as i64, ttl_ns: rng.range(20, 1100) * MS, size: 3 });
        writes += 1;
        if rng.chance(1, 2) {
            ops.push(Op::Get { k, hold: 0 });
        }
        ops.push(Op::Barrier);
        ops.push(Op::Sleep { ns: rng.range(200, 3000) * MS });
        ops.push(Op::Barrier);
    }
    for k in &universe {
        ops.push(Op::Get { k: *k, hold: 0 });
    }
    ops.push(Op::Barrier);
    cfg.buffer_size = cfg.buffer_size.max(writes + 8);
    Plan { prop: prop.into(), family: "L-late".into(), seed, cfg, sim, clients: vec![ops], chaos: vec![], finale: Finale::None, universe, tags: vec!["under_capacity".into(), "settle_ttl".into(), "vstall".into(), "late_arrival".into()] }
}


/// The wall clock is stepped back (C03/C04/C20): an administrator, a VM resume or a time daemon
/// sets CLOCK_REALTIME to an earlier value while timers keep following monotonic time.  One
/// client, roomy cache, lockstep; entries with and without TTL are written before and after
/// steps of a millisecond to hours and looked up on both sides.  The reference models assume
/// one clock, so only the engine rules (nothing panics, no worker dies, nothing blocks) and a
/// dedicated oracle (oracle::wall_step_rules) judge these plans.
pub fn gen_wall_step(prop: &str, seed: u64) -> Plan {
    let mut rng = Rng::new(seed ^ 0x77a1);
    let flavor = pick_flavor_l(&mut rng);
    let mut cfg = roomy_cfg(&mut rng, flavor);
    let sim = sim_plan(&mut rng, false);
    let universe: Vec<u64> = vec![rng.range(1, 20), 300 + rng.below(20), rng.range(1000, 9000), rng.range(10_000, 20_000)];
    let mut ops: Vec<Op> = Vec::new();
    let mut writes = 0;
    let steps = rng.range(2, 8);
    let back = |rng: &mut Rng| match rng.below(4) {
        0 => rng.range(1, 2000) * MS,
        1 => rng.range(1, 120) * SEC,
        2 => rng.range(1, 3) * 3600 * SEC,
        _ => rng.range(1, 20) * SEC + rng.below(1000) * MS,
    };
    if rng.chance(1, 3) {
        // an entry admitted before the step expires after it: the sweep meets bookkeeping
        // (admission timestamps of the metrics) that lies in the wall clock's future
        let k = universe[0];
        ops.push(Op::Insert { k, cost: 1, ttl_ns: if rng.chance(1, 2) { 0 } else { rng.range(30, 90) * SEC }, size: 1 });
        ops.push(Op::Barrier);
        ops.push(Op::WallStepBack { ns: rng.range(10, 400) * SEC });
        ops.push(Op::Insert { k, cost: 1, ttl_ns: rng.range(1, 2) * SEC + rng.below(1000) * MS, size: 1 });
        ops.push(Op::Barrier);
        ops.push(Op::Get { k, hold: 0 });
        ops.push(Op::Sleep { ns: rng.range(3000, 7000) * MS });
        ops.push(Op::Barrier);
        ops.push(Op::Get { k, hold: 0 });
        ops.push(Op::Len);
        writes += 2;
    }
    for i in 0..steps {
        let k = *rng.pick(&universe);
        match rng.below(10) {
            0..=4 => ops.push(Op::Insert { k, cost: rng.range(1, 4) as i64, ttl_ns: if rng.chance(1, 3) { rng.range(1, 3) } else { rng.range(1, 60) } * SEC + rng.below(1000) * MS, size: 1 }),
            5 | 6 => ops.push(Op::Insert { k, cost: 1, ttl_ns: 0, size: 2 }),
            7 => ops.push(Op::Remove { k }),
            _ => ops.push(Op::Sleep { ns: rng.range(100, 4000) * MS }),
        }
        writes += 1;
        if rng.chance(5, 6) {
            ops.push(Op::Barrier);
        }
        if i > 0 && rng.chance(1, 2) || i + 1 == steps {
            ops.push(Op::WallStepBack { ns: back(&mut rng) });
        } else if rng.chance(1, 4) {
            // the wall clock alone jumps ahead (the daemon corrects a slow clock): entries may
            // fall due at once, but no timer fires early
            ops.push(Op::WallStepFwd { ns: back(&mut rng).min(100 * SEC) });
        }
        for k in &universe {
            if rng.chance(2, 3) {
                ops.push(Op::Get { k: *k, hold: 0 });
            }
            if rng.chance(2, 3) {
                ops.push(Op::GetTtl { k: *k });
            }
        }
        if rng.chance(1, 3) {
            ops.push(Op::Sleep { ns: rng.range(100, 3000) * MS });
        }
    }
    ops.push(Op::Barrier);
    for k in &universe {
        ops.push(Op::Get { k: *k, hold: 0 });
        ops.push(Op::GetTtl { k: *k });
    }
    ops.push(Op::Wait);
    cfg.buffer_size = cfg.buffer_size.max(writes + 8);
    Plan { prop: prop.into(), family: "L-wall-step".into(), seed, cfg, sim, clients: vec![ops], chaos: vec![], finale: if rng.chance(1, 2) { Finale::Close } else { Finale::None }, universe, tags: vec!["lockstep".into(), "under_capacity".into(), "wall_step".into(), "final_probe".into()] }
}

/// The wall clock is stepped back *while the sweep runs* (C05).  Entries with short TTLs are
/// written at virtual time 0; for each of them the client wakes at exactly the cleanup tick that
/// finds its bucket due and steps the wall clock back by more than the entry has been overdue -
/// the scheduler decides whether the step lands before the sweep reads the clock, between that
/// reading and the per-entry expiry test, or after.  Then the clock is left alone long enough
/// for every deadline to pass again, and the physical snapshot is judged
/// (oracle::wall_step_reclaim_rule).
pub fn gen_wall_step_sweep(prop: &str, seed: u64) -> Plan {
    let mut rng = Rng::new(seed ^ 0x77a2);
    let flavor = pick_flavor_l(&mut rng);
    let mut cfg = roomy_cfg(&mut rng, flavor);
    cfg.cleanup_ms = *rng.pick(&[100u64, 200, 250, 500, 1000]);
    let interval = cfg.cleanup_ms * MS;
    let sim = sim_plan(&mut rng, false);
    let phase_sub = sim.epoch_phase_ns % SEC;
    let n = rng.range(1, 4) as usize;
    let universe: Vec<u64> = (0..n as u64).map(|i| 10 + 7 * i + rng.below(5)).collect();
    let mut ops: Vec<Op> = Vec::new();
    let mut ttls: Vec<u64> = Vec::new();
    for i in 0..n {
        let d = (1 + 3 * i as u64) * SEC + rng.below(1000) * MS;
        ttls.push(d);
        ops.push(Op::Insert { k: universe[i], cost: 1, ttl_ns: d, size: 1 });
    }
    ops.push(Op::Insert { k: 9000, cost: 1, ttl_ns: 0, size: 2 });
    ops.push(Op::Barrier);
    let mut now = 0u64;
    let mut back = 0u64;
    for i in 0..n {
        // monotonic instant at which the wall clock shows the second of this entry's bucket
        let due = SEC * ((phase_sub + ttls[i]) / SEC + 1) - phase_sub + back;
        let tick = (due + interval - 1) / interval * interval;
        if tick <= now {
            continue;
        }
        // sometimes one tick early or late: the step then lands outside any sweep of this bucket
        let wake = match rng.below(8) {
            0 => tick.saturating_sub(interval).max(now + 1),
            1 => tick + interval,
            _ => tick,
        };
        ops.push(Op::Sleep { ns: wake - now });
        now = wake;
        let s = 2 * SEC + interval + rng.below(2000) * MS;
        ops.push(Op::WallStepBack { ns: s });
        back += s;
        if rng.chance(1, 2) {
            ops.push(Op::Get { k: universe[i], hold: 0 });
        }
    }
    ops.push(Op::Sleep { ns: back + ttls[n - 1] + 3 * SEC + 4 * interval });
    ops.push(Op::Barrier);
    ops.push(Op::Len);
    for k in &universe {
        ops.push(Op::Get { k: *k, hold: 0 });
    }
    ops.push(Op::Get { k: 9000, hold: 0 });
    ops.push(Op::Wait);
    cfg.buffer_size = cfg.buffer_size.max(n + 9);
    let mut universe = universe;
    universe.push(9000);
    Plan { prop: prop.into(), family: "L-wall-step-sweep".into(), seed, cfg, sim, clients: vec![ops], chaos: vec![], finale: if rng.chance(1, 2) { Finale::Close } else { Finale::None }, universe, tags: vec!["lockstep".into(), "under_capacity".into(), "wall_step".into(), "final_probe".into()] }
}

/// TTLs beyond anything a deadline can represent (C03/C10/C20): `Duration::MAX` - which is what
/// `get_ttl` reports for an entry without expiry, so it comes back when a caller copies an entry
/// "with the same TTL" - and a few other values whose deadline overflows seconds-since-epoch.
/// Only the engine rules (nothing panics, nothing blocks, no worker dies) and a small
/// dedicated oracle (the entry is served and reports a TTL) judge these plans.
pub fn gen_huge_ttl(prop: &str, seed: u64) -> Plan {
    let mut rng = Rng::new(seed ^ 0x4a6e);
    let flavor = pick_flavor_l(&mut rng);
    let cfg0 = roomy_cfg(&mut rng, flavor);
    let mut cfg = cfg0;
    let sim = sim_plan(&mut rng, false);
    let universe: Vec<u64> = vec![rng.range(1, 20), 300 + rng.below(20), rng.range(1000, 9000)];
    let huge = |rng: &mut Rng| u64::MAX - rng.below(4);
    let mut ops: Vec<Op> = Vec::new();
    let mut writes = 0;
    let steps = rng.range(2, 7);
    for _ in 0..steps {
        let k = *rng.pick(&universe);
        match rng.below(10) {
            0..=4 => {
                let t = huge(&mut rng);
                ops.push(Op::Insert { k, cost: rng.range(1, 4) as i64, ttl_ns: t, size: 1 });
            }
            5 => ops.push(Op::Insert { k, cost: 1, ttl_ns: 0, size: 2 }),
            6 => ops.push(Op::Insert { k, cost: 1, ttl_ns: rng.range(200, 3000) * MS, size: 3 }),
            7 => ops.push(Op::Remove { k }),
            _ => ops.push(Op::Sleep { ns: rng.range(500, 4000) * MS }),
        }
        writes += 1;
        ops.push(Op::Barrier);
        ops.push(Op::Get { k, hold: 0 });
        ops.push(Op::GetTtl { k });
        if rng.chance(1, 3) {
            ops.push(Op::Wait);
        }
    }
    ops.push(Op::Sleep { ns: rng.range(1000, 5000) * MS });
    ops.push(Op::Barrier);
    for k in &universe {
        ops.push(Op::Get { k: *k, hold: 0 });
        ops.push(Op::GetTtl { k: *k });
    }
    ops.push(Op::Wait);
    cfg.buffer_size = cfg.buffer_size.max(writes + 8);
    Plan { prop: prop.into(), family: "L-huge-ttl".into(), seed, cfg, sim, clients: vec![ops], chaos: vec![], finale: if rng.chance(1, 2) { Finale::Close } else { Finale::None }, universe, tags: vec!["lockstep".into(), "under_capacity".into(), "huge_ttl".into(), "final_probe".into()] }
}


/// Hot-key family (C13/C15): large lookup batches (buffer_items in the hundreds) and one client
/// looking the same key up hundreds of times in a row, so that a single batch carries a long run
/// of one key - arithmetic on run lengths, counters and the reset window only shows here.
pub fn gen_hot(prop: &str, seed: u64) -> Plan {
    let mut rng = Rng::new(seed ^ 0x407);
    let flavor = pick_flavor(&mut rng);
    let mut cfg = roomy_cfg(&mut rng, flavor);
    cfg.buffer_items = *rng.pick(&[260usize, 300, 512, 700, 1024]);
    cfg.num_counters = *rng.pick(&[64usize, 300, 1000, 4096, 100_000, 100_000]);
    cfg.metrics = true;
    let faulty_hot = rng.chance(1, 4);
    let sim = sim_plan(&mut rng, faulty_hot);
    let universe: Vec<u64> = vec![rng.range(1, 50), 300 + rng.below(50), rng.range(1 << 33, 1 << 40)];
    let mut ops: Vec<Op> = Vec::new();
    let mut writes = 0;
    for k in &universe {
        if rng.chance(2, 3) {
            ops.push(Op::Insert { k: *k, cost: 1, ttl_ns: 0, size: 1 });
            writes += 1;
        }
    }
    ops.push(Op::Barrier);
    let rounds = rng.range(1, 3);
    for _ in 0..rounds {
        let hot = *rng.pick(&universe);
        let n = match rng.below(4) {
            0 => rng.range(250, 262),
            1 => rng.range(255, 275),
            2 => rng.range(500, 530),
            _ => rng.range(100, 700),
        };
        for i in 0..n {
            if rng.chance(1, 150) {
                ops.push(Op::Get { k: *rng.pick(&universe), hold: 0 });
            }
            let _ = i;
            ops.push(Op::Get { k: hot, hold: 0 });
        }
        // fill the stripe so that the batch is flushed, then let it be applied
        let cold = *rng.pick(&universe);
        for _ in 0..cfg.buffer_items {
            ops.push(Op::Get { k: cold, hold: 0 });
        }
        ops.push(Op::Barrier);
    }
    cfg.buffer_size = cfg.buffer_size.max(writes + 8);
    let mut sim = sim;
    sim.max_steps = 600_000;
    Plan { prop: prop.into(), family: "L-hot".into(), seed, cfg, sim, clients: vec![ops], chaos: vec![], finale: Finale::None, universe, tags: vec!["under_capacity".into(), "hot_key".into()] }
}


/// One very long run (C13/C15): more recorded lookups than 2^20 on an estimator sized beyond 2^20
/// counters, so that the aging window - and anything else that only changes at that size - is
/// crossed once.  A single run of this kind per batch.
pub fn gen_mega(prop: &str, seed: u64) -> Plan {
    let mut rng = Rng::new(seed ^ 0x3e6a);
    let flavor = pick_flavor(&mut rng);
    let mut cfg = roomy_cfg(&mut rng, flavor);
    cfg.num_counters = *rng.pick(&[(1usize << 20) + 1, 1 << 21, 3 << 20]);
    cfg.buffer_items = *rng.pick(&[512usize, 1024]);
    cfg.metrics = true;
    let mut sim = sim_plan(&mut rng, false);
    sim.max_steps = 80_000_000;
    sim.throttle = 64;
    let universe: Vec<u64> = vec![rng.range(1, 50), 300 + rng.below(50), rng.range(1 << 33, 1 << 40), 7000 + rng.below(100)];
    let mut ops: Vec<Op> = Vec::new();
    for k in &universe {
        ops.push(Op::Insert { k: *k, cost: 1, ttl_ns: 0, size: 1 });
    }
    ops.push(Op::Barrier);
    // a few recorded lookups of the watched keys, then the long tail on one other key
    for (i, k) in universe.iter().enumerate().take(3) {
        ops.push(Op::GetMany { k: *k, n: 9 + i as u64 });
    }
    let filler = universe[3];
    let total = (1u64 << 20) + rng.range(20_000, 200_000);
    ops.push(Op::GetMany { k: filler, n: total });
    // fill the stripe so that the last batch is flushed
    ops.push(Op::GetMany { k: filler, n: cfg.buffer_items as u64 });
    ops.push(Op::Barrier);
    for k in &universe {
        ops.push(Op::Get { k: *k, hold: 0 });
    }
    ops.push(Op::Barrier);
    cfg.buffer_size = cfg.buffer_size.max(16);
    Plan { prop: prop.into(), family: "L-mega".into(), seed, cfg, sim, clients: vec![ops], chaos: vec![], finale: Finale::None, universe, tags: vec!["under_capacity".into(), "mega".into()] }
}


/// A long cache life in one run (C17/C06): more than a hundred thousand distinct keys admitted into
/// one cache (bookkeeping sized for "the last 100 000 admissions" wraps, maps grow and rehash),
/// then the conservation laws are judged on the snapshot.  Observers are muted (every admission
/// event would carry the whole table of charges).
pub fn gen_mega_admissions(prop: &str, seed: u64) -> Plan {
    let mut rng = Rng::new(seed ^ 0x3e6b);
    let flavor = pick_flavor(&mut rng);
    let mut cfg = roomy_cfg(&mut rng, flavor);
    cfg.metrics = true;
    cfg.max_cost = 100_000_000;
    cfg.cleanup_ms = 5000;
    let n = 100_000 + rng.range(4_000, 30_000);
    cfg.buffer_size = n as usize + 64;
    let mut sim = sim_plan(&mut rng, false);
    sim.max_steps = 80_000_000;
    sim.throttle = 64;
    let base = 1u64 << 24;
    let universe: Vec<u64> = vec![base, base + n / 2, base + n - 1, 5];
    let mut ops: Vec<Op> = Vec::new();
    ops.push(Op::Insert { k: 5, cost: 1, ttl_ns: 0, size: 1 });
    ops.push(Op::InsertMany { base, n });
    ops.push(Op::Wait);
    ops.push(Op::Barrier);
    for k in &universe {
        ops.push(Op::Get { k: *k, hold: 0 });
    }
    ops.push(Op::Remove { k: base + 1 });
    ops.push(Op::Insert { k: 6, cost: 1, ttl_ns: 0, size: 1 });
    ops.push(Op::Wait);
    ops.push(Op::Barrier);
    Plan { prop: prop.into(), family: "L-mega-admissions".into(), seed, cfg, sim, clients: vec![ops], chaos: vec![], finale: Finale::None, universe, tags: vec!["under_capacity".into(), "mega".into(), "mega_admissions".into()] }
}

/// clear() with a backlog (C11): items are queued without waiting, then the processor is stalled
/// for a while of virtual time somewhere inside the clear's work (which starts by draining the
/// buffer) - time that code under test may be measuring.
pub fn gen_clear_backlog(prop: &str, seed: u64) -> Plan {
    let mut rng = Rng::new(seed ^ 0xc1ea);
    let flavor = pick_flavor(&mut rng);
    let mut cfg = roomy_cfg(&mut rng, flavor);
    cfg.metrics = true;
    let mut sim = sim_plan(&mut rng, false);
    // the processor is held back while the backlog builds up
    sim.stalls.push(StallPlan { at_step: 1, task: "processor".into(), for_steps: 100_000, for_ns: 0 });
    // mostly a modest backlog; sometimes hundreds of items (beyond any per-batch constant)
    let n = if rng.chance(3, 10) { rng.range(280, 700) } else { rng.range(6, 40) };
    let universe: Vec<u64> = (0..n.min(12)).map(|i| 500 + i * 7).collect();
    let mut ops: Vec<Op> = Vec::new();
    for i in 0..n {
        ops.push(Op::Insert { k: universe[(i % universe.len() as u64) as usize] + 1000 * (i / universe.len() as u64), cost: 1, ttl_ns: 0, size: 1 });
    }
    ops.push(Op::StallWorker { ns: rng.range(260, 3000) * MS, skip: rng.below(60) as u32 });
    ops.push(Op::Clear);
    ops.push(Op::Barrier);
    let all: Vec<u64> = (0..n).map(|i| universe[(i % universe.len() as u64) as usize] + 1000 * (i / universe.len() as u64)).collect();
    for k in &all {
        ops.push(Op::Get { k: *k, hold: 0 });
    }
    ops.push(Op::Len);
    ops.push(Op::Barrier);
    cfg.buffer_size = cfg.buffer_size.max(n as usize + 16);
    Plan { prop: prop.into(), family: "L-clear-backlog".into(), seed, cfg, sim, clients: vec![ops], chaos: vec![], finale: Finale::None, universe: all, tags: vec!["under_capacity".into(), "clear".into(), "vstall".into()] }
}

/// Scale family: one client inserts thousands of distinct keys (most with the same TTL), lets the
/// TTLs pass and the cleanup run, then inspects the quiescent state.  Constants hidden in the
/// implementation (per-tick limits, buffer sizes, shard counts) only show at this size.
pub fn gen_bulk(prop: &str, seed: u64) -> Plan {
    let mut rng = Rng::new(seed ^ 0xb01c);
    let flavor = pick_flavor(&mut rng);
    let mut cfg = roomy_cfg(&mut rng, flavor);
    cfg.buffer_size = 32 * 1024;
    cfg.max_cost = 10_000_000;
    cfg.cleanup_ms = *rng.pick(&[250u64, 500, 1000, 2000]);
    let mut sim = sim_plan(&mut rng, false);
    sim.max_steps = 2_000_000;
    // "backlog" variant: the processor is held back while one client queues thousands of items
    // without waiting - more than any internal burst or batch constant (4096, ...) at one wakeup
    let backlog = rng.chance(1, 4);
    let n = if backlog { *rng.pick(&[4300u64, 4600, 5200]) } else { *rng.pick(&[1200u64, 2000, 3000]) };
    if backlog {
        sim.stalls.push(StallPlan { at_step: 1, task: "processor".into(), for_steps: 1_500_000, for_ns: 0 });
    }
    let base = 1000u64;
    let ttl = *rng.pick(&[700 * MS, SEC, 1500 * MS, 2 * SEC + 300 * MS]);
    // "wide" variant: more than a thousand DISTINCT expiry seconds alive at once (sliding session
    // TTLs), a handful of short ones among them, and a cleanup interval of several seconds
    let wide = !backlog && rng.chance(1, 3);
    if wide {
        cfg.cleanup_ms = *rng.pick(&[5000u64, 8000]);
    }
    let mut ops = Vec::new();
    for i in 0..n {
        let t = if wide {
            if i % 211 == 7 { ttl } else { (1200 + i) * SEC + rng.below(SEC) }
        } else if rng.chance(9, 10) {
            ttl
        } else {
            0
        };
        ops.push(Op::Insert { k: base + i, cost: rng.range(1, 3) as i64, ttl_ns: t, size: 1 });
        if i % 500 == 499 && !backlog {
            ops.push(Op::Wait);
        }
    }
    ops.push(Op::Barrier);
    ops.push(Op::Sleep { ns: ttl + SEC + cfg.cleanup_ms * MS + 10 * MS });
    ops.push(Op::Barrier);
    ops.push(Op::Sleep { ns: SEC + cfg.cleanup_ms * MS + 10 * MS });
    ops.push(Op::Barrier);
    ops.push(Op::Len);
    // a few probes
    for _ in 0..20 {
        ops.push(Op::Get { k: base + rng.below(n), hold: 0 });
    }
    let universe: Vec<u64> = (0..8).map(|i| base + i * (n / 8)).collect();
    // over capacity for the properties that are about eviction: thousands of admissions with
    // eviction rounds instead of a roomy cache
    let mut tags = vec!["lockstep".to_string(), "fault_free".into(), "bulk".into()];
    if backlog {
        tags.push("backlog".into());
    }
    if wide {
        tags.push("wide_ttls".into());
    }
    if matches!(prop, "C01" | "C06" | "C07" | "C08" | "C17") && rng.chance(1, 2) {
        let item = if cfg.ignore_internal_cost { 0 } else { 72 };
        cfg.max_cost = (n as i64 / 4) * (item + 2);
        cfg.metrics = true;
        tags.push("over_capacity".into());
        if rng.chance(2, 3) {
            // a "whale": one admission that has to evict hundreds of residents at once
            let slots = n as i64 / 4 - rng.range(5, 30) as i64;
            let whale = Op::Insert { k: base + n + 7, cost: slots * (item + 2) - item, ttl_ns: 0, size: 2 };
            let at = ops.iter().position(|o| matches!(o, Op::Barrier)).unwrap() + 1;
            ops.insert(at, Op::Barrier);
            ops.insert(at, whale);
            tags.push("whale_admission".into());
        }
    } else {
        tags.push("under_capacity".into());
    }
    Plan { prop: prop.into(), family: "L-bulk".into(), seed, cfg, sim, clients: vec![ops], chaos: vec![], finale: Finale::None, universe, tags }
}

/// Sustained-load family (C05): several clients insert back to back while the eager clock lets
/// virtual time run ahead, so cleanup ticks become due in the middle of the traffic.
pub fn gen_load(prop: &str, seed: u64) -> Plan {
    let mut pf = PProfile { clients: (3, 4), keys: (6, 24), ops: (110, 220), lookup_pct: 5, remove_pct: 3, if_present_pct: 0, wait_pct: 0, ttl_pct: 60, over_capacity_pct: 40, collide_pct: 0, sleeps: false, faulty_pct: 0, barrier_every: (200, 300), ..PProfile::default() };
    pf.coster_pct = 0;
    let mut p = gen_p_family(prop, seed, &pf);
    let mut rng = Rng::new(seed ^ 0x10ad);
    p.sim.eager_clock_permille = *rng.pick(&[60u32, 120, 250]);
    p.cfg.cleanup_ms = *rng.pick(&[100u64, 250, 500]);
    p.family = "P-load".into();
    p.tags.push("faulty".into());
    p.tags.push("tick_events".into());
    p
}

/// Fault enumeration for C10/C11/C12: a small plan with exactly one chaos clear()/close() whose
/// scheduling offset is enumerated (0..64) by the run index instead of sampled.
pub fn gen_enum_chaos(prop: &str, seed: u64, variant: u64) -> Plan {
    let mut pf = profile_for(prop);
    pf.clients = (1, 2);
    pf.ops = (2, 8);
    pf.keys = (1, 3);
    pf.chaos_clear_pct = 0;
    pf.chaos_close_pct = 0;
    pf.chaos_umc_pct = 0;
    pf.faulty_pct = 15;
    pf.sleeps = false;
    let mut p = gen_p_family(prop, seed, &pf);
    let offset = (variant / 4) % 64;
    let op = match prop {
        "C11" => Op::Clear,
        "C12" => Op::Close,
        _ => {
            if (variant / 256) % 2 == 0 {
                Op::Close
            } else {
                Op::Clear
            }
        }
    };
    if matches!(op, Op::Clear) {
        p.tags.push("clear".into());
    } else {
        p.tags.push("close".into());
    }
    p.chaos = vec![Chaos { at_step: offset, op }];
    if prop == "C10" && !p.clients.iter().any(|c| c.iter().any(|o| matches!(o, Op::Wait))) {
        p.clients[0].push(Op::Wait);
    }
    p.family = "P-enum-offset".into();
    p.tags.push(format!("chaos_offset_{}", offset));
    p
}

/// The documented defaults of the builder (README / builder docs): insert buffer 32*1024, get
/// buffer 64, cleanup every 2 s, no metrics, internal cost counted.
pub fn apply_defaults(p: &mut Plan) {
    if matches!(p.cfg.keys, KeyMode::Typed { .. }) || p.has_tag("small_buffer") || p.has_tag("bulk") || p.prop == "C20" || p.prop == "C13" || p.prop == "C17" {
        return;
    }
    p.cfg.use_defaults = true;
    p.cfg.buffer_size = 32 * 1024;
    p.cfg.buffer_items = 64;
    p.cfg.cleanup_ms = 2000;
    p.cfg.metrics = false;
    p.cfg.ignore_internal_cost = false;
    p.tags.push("builder_defaults".into());
}

pub fn gen_plan(prop: &str, seed: u64, variant: u64) -> Plan {
    let mut p = gen_plan_inner(prop, seed, variant);
    if !cfg!(feature = "async_flavour") && p.cfg.flavor != Flavor::Sync {
        // families that exist for the async flavour only (cancellation, single-task executor):
        // the default-features build runs the property's general family instead
        p = gen_p_family(prop, seed, &profile_for(prop));
    }
    // the host: an eighth of the runs see a machine with 1, 2 or 3 CPUs (derived from the seed, not
    // drawn, so that the plans themselves stay what they were)
    p.sim.cpus = match (seed >> 9) % 24 {
        0 => 1,
        1 => 2,
        2 => 3,
        _ => 0,
    };
    // a close() whose future is dropped at an await (timeout, select!), then close() again: the
    // retry must still stop the workers
    if prop == "C12" && p.cfg.flavor == Flavor::Async && variant % 5 == 3 && !matches!(p.cfg.keys, KeyMode::Typed { .. }) && p.finale != Finale::DropAll {
        let mut r = Rng::new(seed ^ 0xc105e);
        let c0 = &mut p.clients[0];
        c0.push(Op::CancelNext { after: r.below(3) as u32 });
        c0.push(Op::Close);
        c0.push(Op::Close);
        c0.push(Op::Barrier);
        p.tags.push("cancelled_close_then_retry".into());
    }
    // the builder recipe (constructor, order of setters) varies with the run
    if !matches!(p.cfg.keys, KeyMode::Typed { .. }) {
        p.cfg.recipe = ((variant / 3) % 8) as u8;
    }
    // a second cache in the same process (C03/C04/C05/C10 families without tick events)
    if matches!(prop, "C03" | "C04" | "C05" | "C10" | "C16") && variant % 9 == 4 && !matches!(p.cfg.keys, KeyMode::Typed { .. }) && !p.has_tag("tick_events") && !p.has_tag("bulk") && !p.has_tag("huge_ttl") && !p.has_tag("wall_step") {
        p.cfg.decoy = true;
        p.tags.push("decoy_cache".into());
    }
    // a cleanup interval shorter than one sweep takes (time passes while the processor computes)
    if prop == "C20" && variant % 37 == 9 && p.family == "P" {
        let mut r = Rng::new(seed ^ 0x71c4);
        p.cfg.cleanup_ns = *r.pick(&[1u64, 20, 150, 900]);
        p.cfg.cleanup_ms = 1;
        p.sim.step_cost_ns = *r.pick(&[10u64, 60, 250, 1000]);
        p.sim.eager_clock_permille = 0;
        p.sim.max_steps = 400_000;
        // with a timer that is always due the processor never idles: no quiescent points in
        // these plans (no barriers, no final checkpoint) - the final probe alone must complete
        for c in p.clients.iter_mut() {
            // (nor sleeps: with the processor spinning the clock only moves by the step cost)
            c.retain(|o| !matches!(o, Op::Barrier | Op::Sleep { .. } | Op::Jump { .. }));
        }
        p.chaos.clear();
        p.finale = Finale::None;
        p.tags.push("no_quiesce".into());
        if !p.has_tag("final_probe") {
            p.tags.push("final_probe".into());
        }
        p.tags.push("tiny_cleanup_interval".into());
    }
    // a key builder whose 128 bits only come out of build_key()
    if matches!(p.cfg.keys, KeyMode::Collide { .. }) && (variant / 3) % 3 == 1 {
        p.cfg.kb_build_key_only = true;
        p.tags.push("key_builder_overrides_build_key_only".into());
    }
    // a tracing subscriber that enables everything (process-global environment the library reads)
    if variant % 6 == 2 {
        p.cfg.tracing_on = true;
        p.tags.push("tracing_subscriber".into());
    }
    // callbacks that call back into their own cache
    if matches!(prop, "C01" | "C03" | "C04" | "C05" | "C06" | "C08" | "C10" | "C11" | "C17") && variant % 5 == 1 && p.finale != Finale::DropAll {
        p.cfg.reentrant_cb = true;
        p.tags.push("reentrant_callbacks".into());
    }
    // every seventh run goes through the constructor's defaults
    if variant % 7 == 3 {
        apply_defaults(&mut p);
    }
    p
}

fn gen_plan_inner(prop: &str, seed: u64, variant: u64) -> Plan {
    // experiments: judge property X on the scenario family of property Y (DST_GEN=Y)
    let over = std::env::var("DST_GEN").ok();
    let prop = over.as_deref().unwrap_or(prop);
    match prop {
        "C03" | "C10" | "C20" if variant % 40 == 11 => gen_huge_ttl(prop, seed),
        "C03" | "C04" | "C20" if variant % 40 == 23 => gen_wall_step(prop, seed),
        "C05" if variant % 40 == 23 => gen_wall_step_sweep(prop, seed),
        "C13" | "C15" if variant % 20_000 == 3 => gen_mega(prop, seed),
        "C17" | "C06" if variant % 20_000 == 5 => gen_mega_admissions(prop, seed),
        "C11" if variant % 11 == 5 => gen_clear_backlog(prop, seed),
        "C13" | "C15" if variant % 97 == 5 => gen_hot(prop, seed),
        // cancellation: futures of remove()/wait() dropped at their await point (full buffer,
        // stalled processor); every value must still leave through exactly one callback
        // the last handle goes while accepted items are still buffered (processor held back)
        "C08" if variant % 23 == 7 => gen_p_family(prop, seed, &PProfile { clients: (1, 3), keys: (3, 8), ops: (4, 16), remove_pct: 5, lookup_pct: 5, wait_pct: 0, if_present_pct: 0, over_capacity_pct: 30, collide_pct: 0, chaos_clear_pct: 0, ttl_pct: 10, faulty_pct: 100, barrier_every: (20, 30), sleeps: false, drop_busy: true, ..PProfile::default() }),
        "C08" if variant % 29 == 13 => gen_p_family(prop, seed, &PProfile { clients: (2, 3), keys: (2, 5), ops: (10, 30), remove_pct: 35, lookup_pct: 8, wait_pct: 6, if_present_pct: 3, small_buffer_pct: 100, cancel_pct: 60, faulty_pct: 100, over_capacity_pct: 30, collide_pct: 0, chaos_clear_pct: 0, ttl_pct: 10, sleeps: false, ..PProfile::default() }),
        // more client threads than any striping constant inside the library (25 metric stripes)
        "C17" if variant % 61 == 9 => gen_p_family(prop, seed, &PProfile { clients: (26, 34), keys: (2, 6), ops: (4, 10), barrier_every: (2, 4), lookup_pct: 65, remove_pct: 4, if_present_pct: 3, wait_pct: 0, metrics_on: true, over_capacity_pct: 30, collide_pct: 0, faulty_pct: 10, sleeps: false, ..PProfile::default() }),
        "C04" | "C05" | "C06" | "C01" | "C17" | "C07" | "C08" if variant % 193 == 7 => gen_bulk(prop, seed),
        "C03" if variant % 4 == 2 => gen_p_family(prop, seed, &PProfile { ttl_pct: 70, lookup_pct: 45, over_capacity_pct: 30, remove_pct: 8, vstall_pct: 25, ..PProfile::default() }),
        "C04" if variant % 4 == 2 => gen_p_family(prop, seed, &PProfile { over_capacity_pct: 0, collide_pct: 0, ttl_pct: 30, remove_pct: 10, if_present_pct: 5, wait_pct: 5, vstall_pct: 25, ..PProfile::default() }),
        "C03" | "C04" => gen_ttl_family(prop, seed, variant % 4 == 3),
        "C05" if variant % 48 == 6 => gen_load(prop, seed),
        "C05" if variant % 16 == 10 => gen_late(prop, seed),
        // same-key churn: a few clients rewrite one or two keys with and without TTL, deadlines in
        // one bucket; the expiry index must follow the store whatever the interleaving
        "C05" if variant % 8 == 2 => gen_p_family(prop, seed, &PProfile { clients: (2, 3), keys: (1, 2), ops: (8, 26), over_capacity_pct: 0, collide_pct: 0, ttl_pct: 55, ttl_narrow: true, remove_pct: 6, if_present_pct: 5, lookup_pct: 10, wait_pct: 2, sleeps: false, faulty_pct: 60, barrier_every: (3, 10), settle: true, ..PProfile::default() }),
        "C05" if variant % 4 == 2 => gen_p_family(prop, seed, &PProfile { over_capacity_pct: 20, collide_pct: 5, ttl_pct: 70, remove_pct: 8, lookup_pct: 25, faulty_pct: 0, vstall_pct: 35, settle: true, ..PProfile::default() }),
        "C05" => gen_ttl_family(prop, seed, variant % 2 == 1),
        "C09" if variant % 4 == 2 => gen_p_family(prop, seed, &PProfile { hold_other_pct: 8, clients: (2, 4), keys: (2, 4), validator_pct: 100, if_present_pct: 25, lookup_pct: 15, remove_pct: 8, over_capacity_pct: 20, collide_pct: 0, ttl_pct: 25, ops: (6, 24), ..PProfile::default() }),
        "C09" => gen_ttl_family_c(prop, seed, variant % 5 == 4, true),
        "C19" => gen_diff(seed, variant),
        // overlapping writes of few keys, Coster-valued: insert followed at once by insert_if_present
        "C16" if variant % 3 == 1 => gen_p_family(prop, seed, &PProfile { clients: (1, 3), keys: (1, 3), coster_pct: 100, over_capacity_pct: 10, barrier_every: (3, 9), collide_pct: 0, faulty_pct: 40, ttl_pct: 10, if_present_pct: 35, remove_pct: 8, lookup_pct: 10, ops: (6, 30), sleeps: false, ..PProfile::default() }),
        "C16" => gen_p_family(prop, seed, &PProfile { clients: (1, 2), coster_pct: 60, over_capacity_pct: 50, barrier_every: (1, 3), collide_pct: 0, faulty_pct: 20, ttl_pct: 15, if_present_pct: 15, ops: (6, 30), ..PProfile::default() }),
        // one thread for everything (single-task executor) and a tiny insert buffer: whatever waits
        // for the processor has to let it run
        "C10" if variant % 13 == 6 => gen_p_family(prop, seed, &PProfile { clients: (1, 1), keys: (2, 6), ops: (6, 24), wait_pct: 25, lookup_pct: 10, remove_pct: 10, if_present_pct: 5, small_buffer_pct: 100, force_local: true, chaos_clear_pct: 0, chaos_close_pct: 0, inline_clear_pct: 5, faulty_pct: 0, sleeps: false, barrier_every: (4, 12), ..PProfile::default() }),
        "C10" | "C11" | "C12" if variant % 4 == 0 => gen_enum_chaos(prop, seed, variant),
        "C18" if variant % 3 == 0 => gen_c18_lockstep(seed),
        "C18" if variant % 3 == 1 => gen_c18_typed(seed),
        // one shard, many keys: the shard's table grows (and moves every entry) while references
        // into it are taken and written through
        "C02" if variant % 4 == 2 => gen_p_family(prop, seed, &PProfile { clients: (2, 4), keys: (8, 18), ops: (16, 50), same_shard: true, get_mut_write: true, get_mut_heavy: true, lookup_pct: 45, remove_pct: 8, if_present_pct: 3, wait_pct: 6, over_capacity_pct: 10, collide_pct: 0, chaos_clear_pct: 0, ttl_pct: 5, faulty_pct: 50, barrier_every: (4, 10), sleeps: false, ..PProfile::default() }),
        "C02" if variant % 4 == 3 => gen_p_family(prop, seed, &PProfile { clients: (2, 3), keys: (2, 4), ops: (6, 20), collide_pct: 100, over_capacity_pct: 100, remove_pct: 30, lookup_pct: 30, if_present_pct: 3, wait_pct: 3, faulty_pct: 80, chaos_clear_pct: 0, ttl_pct: 15, ..PProfile::default() }),
        "C02" if variant % 4 == 1 => gen_p_family(prop, seed, &PProfile { clients: (1, 2), keys: (1, 2), ops: (5, 16), wait_pct: 35, lookup_pct: 30, remove_pct: 5, if_present_pct: 5, over_capacity_pct: 20, collide_pct: 0, chaos_clear_pct: 0, barrier_every: (3, 8), sleeps: false, ..PProfile::default() }),
        "C01" | "C02" | "C06" | "C07" | "C08" | "C10" | "C11" | "C12" | "C13" | "C15" | "C17" | "C18" | "C20" => gen_p_family(prop, seed, &profile_for(prop)),
        _ => gen_ttl_family(prop, seed, false),
    }
}

pub fn nontrivial_rule(prop: &str) -> &'static str {
    match prop {
        "C03" | "C04" | "C05" => "seeded swarm over lock-step TTL scripts (keys, TTLs, clock placements around second boundaries and deadlines, cleanup interval, scheduler mode; C05 alternates fault-free and faulty configurations); a run is non-trivial if a TTL deadline was crossed and observed, a TTL entry was re-inserted (with or without TTL), or a resident TTL entry was updated; distinct = distinct event-log hash among non-trivial runs",
        "C01" => "P family, mostly over capacity with update_max_cost chaos; non-trivial = at least one admission of a new key was observed under the policy lock; distinct = distinct event-log hash",
        "C02" => "P family, few keys, unique values, removes/clears/get_mut writes, collisions in a third of runs; non-trivial = at least one lookup returned a value; distinct = distinct event-log hash",
        "C06" => "P family with evictions, expiry and chaos clear; non-trivial = a quiescent checkpoint with a non-empty store was compared with the policy; distinct = distinct event-log hash",
        "C07" => "P family, always over capacity, skewed lookups feeding the sketch; non-trivial = at least one admission needed an eviction round (room < 0); distinct = distinct event-log hash",
        "C08" => "P family; non-trivial = at least one accepted value was tracked in the ledger to the final quiescent point; distinct = distinct event-log hash",
        "C09" => "lock-step TTL scripts with insert_if_present and a vetoing validator in 60% of runs; non-trivial = an insert_if_present or a veto was exercised (or a deadline crossed); distinct = distinct event-log hash",
        "C10" => "P family with wait(), chaos clear()/close() at random scheduling offsets, buffer sizes 1-4 in half of the runs; non-trivial = a wait() returned Ok and the barrier was checked against the processor's activity; distinct = distinct event-log hash",
        "C11" => "P family with clear() from a chaos task at a random scheduling offset (70%) or inline; non-trivial = a clear() returned and the next quiescent state was examined; distinct = distinct event-log hash",
        "C12" => "P family with 1-3 chaos close() calls, close or drop-all finale; non-trivial = a close() returned Ok (post-close behaviour checked) or all handles were dropped; distinct = distinct event-log hash",
        "C13" => "P family dominated by lookups, num_counters 1-70 and a few large; non-trivial = recordings reached the estimator before a checkpoint compared it with the reference TinyLFU; distinct = distinct event-log hash",
        "C15" => "P family dominated by lookups, buffer_items 0-64, stalled policy worker; non-trivial = lookups were flushed and accounted at a quiescent checkpoint; distinct = distinct event-log hash",
        "C16" => "1-2 clients, explicit and Coster-valued costs, both internal-cost settings, evictions; non-trivial = the charge of a resident entry was compared with cost + overhead; distinct = distinct event-log hash",
        "C17" => "P family with metrics on, inline clear at barriers; non-trivial = the conservation equations were evaluated at a quiescent checkpoint; distinct = distinct event-log hash",
        "C18" => "thirds: lock-step scripts over keys forced to share an index (collision key builder), the exact-map family on every integer key type and on String/&str with the library's own key builders, P family with collisions; non-trivial = an operation hit an index held by a colliding key, or a typed-key script ran; distinct = distinct event-log hash",
        "C19" => "the same lock-step plan (barrier after every operation) executed on Cache and on AsyncCache in one child; non-trivial = more than two operations were compared result by result; distinct = distinct event-log hash of the pair",
        "C20" => "swarm over builder parameters (num_counters 0-70 and large, max_cost negative/0/1/small, buffer_size 0-8, buffer_items 0-64, cleanup 1 ms-5 s) followed by a P workload and a final insert+wait+get+remove probe; non-trivial = the accepted configuration has at least one small or unusual parameter (num_counters < 64, max_cost < 100, buffer_size <= 8, buffer_items <= 1, cleanup <= 10 ms) or a zero parameter was rejected; distinct = distinct event-log hash",
        _ => "seeded swarm; distinct = distinct event-log hash among runs that exercised the property's mechanism",
    }
}
