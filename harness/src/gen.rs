//! Plan generators (swarm style: every run draws its own sizes, mixes and fault subsets).

use crate::plan::*;
use stretto_sim_rt::rt::Rng;

pub const SEC: u64 = 1_000_000_000;
pub const MS: u64 = 1_000_000;
pub const EPOCH_S: u64 = 1_700_000_000;

pub fn sim_plan(rng: &mut Rng, faulty: bool) -> SimPlan {
    let mode = match rng.below(10) {
        0..=5 => SchedMode::RandomWalk { stay_permille: rng.range(500, 970) as u32 },
        6..=8 => SchedMode::Pct { depth: rng.range(1, 4) as u32, est_steps: rng.range(50, 1500) as u32 },
        _ => SchedMode::RoundRobin { quantum: rng.range(1, 12) as u32 },
    };
    let mut stalls = Vec::new();
    let mut eager = 0;
    if faulty {
        let n = rng.below(3);
        for _ in 0..n {
            stalls.push(StallPlan {
                at_step: rng.range(5, 1500),
                task: (*rng.pick(&["processor", "policy_worker", "processor", "c0", "c1"])).to_string(),
                for_steps: rng.range(10, 400),
            });
        }
        if rng.chance(1, 3) {
            eager = rng.range(5, 80) as u32;
        }
    }
    SimPlan {
        mode,
        eager_clock_permille: eager,
        throttle: *rng.pick(&[8u32, 16, 32, 64]),
        stalls,
        epoch_phase_ns: rng.below(SEC),
        max_steps: 200_000,
    }
}

pub fn pick_flavor(rng: &mut Rng) -> Flavor {
    match std::env::var("DST_FLAVOR").ok().as_deref() {
        Some("sync") => Flavor::Sync,
        Some("async") => Flavor::Async,
        _ => {
            if rng.chance(1, 2) {
                Flavor::Sync
            } else {
                Flavor::Async
            }
        }
    }
}

pub fn roomy_cfg(rng: &mut Rng, flavor: Flavor) -> Cfg {
    Cfg {
        flavor,
        num_counters: *rng.pick(&[64usize, 100, 1000, 37, 4096]),
        max_cost: 1_000_000,
        buffer_size: *rng.pick(&[64usize, 128, 1024, 32 * 1024]),
        buffer_items: *rng.pick(&[1usize, 2, 3, 8, 64]),
        metrics: rng.chance(1, 2),
        ignore_internal_cost: rng.chance(1, 2),
        cleanup_ms: *rng.pick(&[100u64, 250, 500, 500, 1000, 2000, 2000, 2000, 3000, 5000]),
        hasher_seed: rng.next_u64(),
        keys: KeyMode::Transparent,
        validator: Validator::Always,
        coster: false,
        callback: CallbackMode::Full,
    }
}

fn gen_universe(rng: &mut Rng, n: usize) -> Vec<u64> {
    let mut u: Vec<u64> = Vec::new();
    while u.len() < n {
        let k = match rng.below(10) {
            0 => 0,
            1 => u64::MAX - rng.below(3),
            2 => 256 + rng.below(8), // shares a shard with a small key
            _ => rng.range(1, 24),
        };
        if !u.contains(&k) {
            u.push(k);
        }
    }
    u
}

pub fn gen_ttl_value(rng: &mut Rng) -> u64 {
    match rng.below(20) {
        0..=2 => rng.range(1, 999) * MS,
        3..=10 => rng.range(500, 3000) * MS,
        11 => SEC,
        12 => 2 * SEC,
        13 => SEC - 1,
        14 => SEC + 1,
        15..=17 => rng.range(3, 20) * SEC + rng.below(SEC),
        18 => rng.range(1, 3) * 3600 * SEC,
        _ => rng.range(1, 5000) * MS + rng.below(MS),
    }
}

/// L family: one client in lock-step with quiescent barriers; TTL-centred (C03, C04, C05).
pub fn gen_ttl_family(prop: &str, seed: u64, faulty: bool) -> Plan {
    let mut rng = Rng::new(seed ^ 0x77_11);
    let flavor = pick_flavor(&mut rng);
    let cfg = roomy_cfg(&mut rng, flavor);
    let sim = sim_plan(&mut rng, faulty);
    let n_keys = rng.range(2, 8) as usize;
    let universe = gen_universe(&mut rng, n_keys);
    let cleanup = cfg.cleanup_ms * MS;
    let mut ops: Vec<Op> = Vec::new();
    let mut now = EPOCH_S * SEC + sim.epoch_phase_ns;
    let start = now;
    let budget = 70 * SEC;
    // generator-side view of deadlines (exact in the fault-free configuration)
    let mut deadlines: Vec<u64> = Vec::new();
    let steps = rng.range(5, 28);
    let mut writes = 0usize;
    for _ in 0..steps {
        match rng.below(100) {
            0..=34 => {
                let k = *rng.pick(&universe);
                let ttl = if rng.chance(45, 100) { 0 } else { gen_ttl_value(&mut rng) };
                ops.push(Op::Insert { k, cost: rng.range(1, 5) as i64, ttl_ns: ttl, size: rng.range(1, 9) as u32 });
                writes += 1;
                if ttl > 0 {
                    deadlines.push(now + ttl);
                }
                if rng.chance(85, 100) {
                    ops.push(Op::Barrier);
                } else {
                    // a second write on another key before the barrier
                    let k2 = *rng.pick(&universe);
                    if k2 != k {
                        let ttl2 = if rng.chance(1, 2) { 0 } else { gen_ttl_value(&mut rng) };
                        ops.push(Op::Insert { k: k2, cost: rng.range(1, 5) as i64, ttl_ns: ttl2, size: 1 });
                        writes += 1;
                        if ttl2 > 0 {
                            deadlines.push(now + ttl2);
                        }
                    }
                    ops.push(Op::Barrier);
                }
            }
            35..=41 => {
                ops.push(Op::Remove { k: *rng.pick(&universe) });
                writes += 1;
                ops.push(Op::Barrier);
            }
            42..=44 => {
                ops.push(Op::Clear);
                ops.push(Op::Barrier);
            }
            45..=69 => {
                if rng.chance(1, 3) {
                    for k in &universe {
                        ops.push(probe(&mut rng, *k));
                    }
                } else {
                    let k = *rng.pick(&universe);
                    ops.push(probe(&mut rng, k));
                }
            }
            _ => {
                if now - start > budget {
                    continue;
                }
                let jitter = *rng.pick(&[-1i64, 0, 1, 0, 1, 500_000]);
                let target = match rng.below(10) {
                    0..=2 => (now / SEC + 1) * SEC,
                    3..=5 if !deadlines.is_empty() => *rng.pick(&deadlines),
                    6..=7 if !deadlines.is_empty() => *rng.pick(&deadlines) + SEC + cleanup + MS,
                    _ => now + rng.range(1, 2500) * MS,
                };
                let target = (target as i64 + jitter) as u64;
                if target > now && target - now < 25 * SEC {
                    let d = target - now;
                    if faulty && rng.chance(1, 3) {
                        ops.push(Op::Jump { ns: d });
                    } else {
                        ops.push(Op::Sleep { ns: d });
                    }
                    now = target;
                    if rng.chance(2, 3) {
                        ops.push(Op::Barrier);
                    }
                }
            }
        }
    }
    if faulty && rng.chance(1, 4) {
        ops.push(Op::Jump { ns: rng.range(1, 3) * 3600 * SEC });
    }
    // faults stop here; let every short deadline pass and be swept, then probe everything
    if faulty {
        ops.push(Op::FaultsOff);
    }
    for k in &universe {
        ops.push(probe(&mut rng, *k));
    }
    ops.push(Op::Barrier);
    let settle = SEC + cleanup + MS;
    if rng.chance(4, 5) {
        ops.push(Op::Sleep { ns: rng.range(500, 3500) * MS });
        ops.push(Op::Barrier);
    }
    ops.push(Op::Sleep { ns: settle });
    ops.push(Op::Barrier);
    ops.push(Op::Sleep { ns: settle });
    ops.push(Op::Barrier);
    for k in &universe {
        ops.push(Op::Get { k: *k, hold: 0 });
    }
    ops.push(Op::Len);
    let mut cfg = cfg;
    cfg.buffer_size = cfg.buffer_size.max(writes + 8);
    let mut tags = vec!["lockstep".to_string(), "under_capacity".to_string()];
    if !faulty {
        tags.push("fault_free".into());
    }
    Plan {
        prop: prop.into(),
        family: if faulty { "L-ttl-faulty".into() } else { "L-ttl".into() },
        seed,
        cfg,
        sim,
        clients: vec![ops],
        chaos: vec![],
        finale: Finale::None,
        universe,
        tags,
    }
}

fn probe(rng: &mut Rng, k: u64) -> Op {
    match rng.below(10) {
        0..=5 => Op::Get { k, hold: if rng.chance(1, 5) { rng.range(1, 4) as u32 } else { 0 } },
        6..=8 => Op::GetTtl { k },
        _ => Op::GetMut { k, write: false, size: 0, hold: 0 },
    }
}

pub fn gen_plan(prop: &str, seed: u64, variant: u64) -> Plan {
    match prop {
        "C03" | "C04" => gen_ttl_family(prop, seed, variant % 4 == 3),
        "C05" => gen_ttl_family(prop, seed, variant % 2 == 1),
        _ => gen_ttl_family(prop, seed, false),
    }
}

pub fn nontrivial_rule(prop: &str) -> &'static str {
    match prop {
        "C03" | "C04" | "C05" => "seeded swarm over lock-step TTL scripts (keys, TTLs, clock placements around second boundaries and deadlines, cleanup interval, scheduler mode); a run is non-trivial if a TTL deadline was crossed and observed, a TTL entry was re-inserted (with or without TTL), or a resident TTL entry was updated; distinct = distinct event-log hash among non-trivial runs",
        _ => "seeded swarm; distinct = distinct event-log hash among runs that exercised the property's mechanism",
    }
}
