mod exec;
mod gen;
mod hist;
mod oracle;
mod oracle_c18;
mod oracle_diff;
mod oracle_est;
mod oracle_p;
mod oracle_ttl;
mod plan;
mod runner;
mod selftest;
mod check;

/// The seam for the *monotonic* clock.  `std::time::Instant::now()` ends in libc's
/// `clock_gettime`; this definition in the executable takes its place at link time.  While a
/// simulation runs, the monotonic clocks are answered from the simulator's virtual clock; at any
/// other time (and for every other clock id) the real system call is made.
#[no_mangle]
pub unsafe extern "C" fn clock_gettime(clk: libc::clockid_t, ts: *mut libc::timespec) -> libc::c_int {
    use std::sync::atomic::Ordering;
    let monotonic = clk == libc::CLOCK_MONOTONIC || clk == libc::CLOCK_MONOTONIC_RAW || clk == libc::CLOCK_MONOTONIC_COARSE || clk == libc::CLOCK_BOOTTIME;
    if monotonic && stretto_sim_rt::rt::SIM_CLOCK_ON.load(Ordering::Relaxed) && !ts.is_null() {
        let now = stretto_sim_rt::rt::NOW.load(Ordering::SeqCst);
        (*ts).tv_sec = (now / 1_000_000_000) as libc::time_t;
        (*ts).tv_nsec = (now % 1_000_000_000) as libc::c_long;
        return 0;
    }
    libc::syscall(libc::SYS_clock_gettime, clk, ts) as libc::c_int
}

fn main() {
    let args: Vec<String> = std::env::args().collect();
    let code = check::cli(&args[1..]);
    std::process::exit(code);
}
