mod exec;
mod gen;
mod hist;
mod oracle;
mod oracle_c18;
mod oracle_diff;
mod oracle_est;
mod oracle_p;
mod oracle_ttl;
mod plan;
mod runner;
mod selftest;
mod check;

fn main() {
    let args: Vec<String> = std::env::args().collect();
    let code = check::cli(&args[1..]);
    std::process::exit(code);
}
