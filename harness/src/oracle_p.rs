//! Oracles that stay sound under arbitrary overlap of client operations (P family):
//! C01 cost bound, C02 per-key history, C06 store/policy agreement, C07 admission rule,
//! C08 callback ledger, C10 wait barrier, C11 clear, C12 close, C17 metrics, C20 liveness.

use crate::exec::*;
use crate::hist::*;
use crate::plan::*;
use std::collections::{BTreeMap, BTreeSet};

pub struct POut {
    pub violations: Vec<Violation>,
    pub probes: BTreeMap<&'static str, u64>,
    pub nontrivial: bool,
}

impl POut {
    fn new() -> Self {
        POut { violations: vec![], probes: BTreeMap::new(), nontrivial: false }
    }
    fn probe(&mut self, k: &'static str, n: u64) {
        *self.probes.entry(k).or_default() += n;
    }
}

/// sequence number of the first clear()/close() invocation, if any
fn first_clear_inv(h: &Hist) -> Option<u64> {
    h.ops.iter().filter(|o| matches!(o.op, Op::Clear | Op::Close)).map(|o| o.inv_seq).min()
}

fn clear_ctx(h: &Hist, seq: u64) -> &'static str {
    match first_clear_inv(h) {
        Some(c) if c < seq => "after a clear()/close() in the history",
        _ => "no clear()/close() in the history",
    }
}

fn first_error_seq(h: &Hist) -> u64 {
    h.ops.iter().filter(|o| matches!(o.res, Some(Res::Err(_)) | Some(Res::Panic(_)))).filter_map(|o| o.ret_seq).min().unwrap_or(u64::MAX)
}

// ------------------------------------------------------------------------------------------
// C06
// ------------------------------------------------------------------------------------------

pub fn check_c06(h: &Hist) -> POut {
    let mut out = POut::new();
    if !h.built_ok {
        return out;
    }
    let err_at = first_error_seq(h);
    let closed_at = h.ops.iter().filter(|o| matches!(o.op, Op::Close)).map(|o| o.inv_seq).min().unwrap_or(u64::MAX);
    for cp in h.cps.iter().filter(|c| c.quiescent) {
        if cp.seq > err_at || cp.seq > closed_at {
            break;
        }
        let (Some(es), Some((_, _, pol))) = (&cp.snap.entries, &cp.snap.policy) else { continue };
        let store: BTreeSet<u64> = es.iter().map(|e| e.index).collect();
        let policy: BTreeSet<u64> = pol.iter().map(|(k, _)| *k).collect();
        if !store.is_empty() {
            out.nontrivial = true;
        }
        let ctx = clear_ctx(h, cp.seq);
        let only_store: Vec<u64> = store.difference(&policy).copied().collect();
        let only_policy: Vec<u64> = policy.difference(&store).copied().collect();
        if !only_store.is_empty() {
            out.violations.push(viol("C06", "R-resident-not-charged", cp.seq, &format!("resident entry without a policy charge at quiescence ({})", ctx), format!("checkpoint {}: store indices {:?} not charged; store={:?} policy={:?}", cp.id, only_store, store, policy)));
        }
        if !only_policy.is_empty() {
            out.violations.push(viol("C06", "R-charge-without-entry", cp.seq, &format!("policy charge without a resident entry at quiescence ({})", ctx), format!("checkpoint {}: policy keys {:?} have no entry; store={:?} policy={:?}", cp.id, only_policy, store, policy)));
        }
        if cp.snap.len != es.len() {
            out.violations.push(viol("C06", "R-len", cp.seq, "len() differs from the number of resident entries", format!("len()={} entries={}", cp.snap.len, es.len())));
        }
    }
    let evictions = h.cbs.iter().filter(|c| c.kind == CbKind::Evict).count() as u64;
    out.probe("evictions_or_expiry_callbacks", evictions);
    out.probe("clear_with_nonempty_buffer", clear_with_pending(h));
    out
}

/// number of clear() calls invoked while an accepted insert had not yet been applied
fn clear_with_pending(h: &Hist) -> u64 {
    let mut n = 0;
    for c in h.ops.iter().filter(|o| matches!(o.op, Op::Clear)) {
        // an insert that returned true shortly before the clear with no AddExit for its key in between
        let pending = h.ops.iter().any(|o| {
            matches!(o.op, Op::Insert { .. })
                && o.ok_true()
                && o.ret_seq_or_max() < c.inv_seq
                && !h.obs().any(|(e, ob)| matches!(ob, ObsEv::AddExit { key, .. } if Some(*key) == o.op.key().map(|k| h.index_of(k))) && e.seq > o.inv_seq && e.seq < c.inv_seq)
                && !h.cbs.iter().any(|cb| cb.in_op.map(|i| h.ops[i].inv_seq) == Some(o.inv_seq))
        });
        if pending {
            n += 1;
        }
    }
    n
}

// ------------------------------------------------------------------------------------------
// C01
// ------------------------------------------------------------------------------------------

pub fn check_c01(h: &Hist) -> POut {
    let mut out = POut::new();
    if !h.built_ok {
        return out;
    }
    // slack accumulated since the last admission of a new key
    let mut slack_updates: i64 = 0;
    let mut max_at_last_admission: i64 = h.plan.cfg.max_cost;
    let mut enter: Option<(u64, i64, i64, i64, Vec<(u64, i64)>)> = None; // key,cost,max,used,costs
    let umc: Vec<&OpRec> = h.ops.iter().filter(|o| matches!(o.op, Op::UpdateMaxCost { .. })).collect();
    let allowed_max = |seq: u64| -> Vec<i64> {
        let mut v: Vec<i64> = Vec::new();
        let cands: Vec<&&OpRec> = umc.iter().filter(|o| o.inv_seq < seq).collect();
        for o in &cands {
            let superseded = cands.iter().any(|p| p.inv_seq > o.ret_seq_or_max() && p.ret_seq_or_max() < seq);
            if !superseded {
                if let Op::UpdateMaxCost { v: x } = o.op {
                    v.push(x);
                }
            }
        }
        if !cands.iter().any(|o| o.ret_seq_or_max() < seq) {
            v.push(h.plan.cfg.max_cost);
        }
        v
    };
    for e in h.evs.iter() {
        match &e.kind {
            EvKind::Obs(ObsEv::AddEnter { key, cost, max_cost, used, key_costs, .. }) => {
                let sum: i64 = key_costs.iter().map(|(_, c)| *c).sum();
                if sum != *used {
                    out.violations.push(viol("C01", "R1-used-ne-sum", e.seq, "charged total differs from the sum of per-entry charges", format!("at add({}) entry: used={} sum={} costs={:?}", key, used, sum, key_costs)));
                }
                let allowed = allowed_max(e.seq);
                if !allowed.contains(max_cost) {
                    out.violations.push(viol("C01", "R5-max-cost-not-in-effect", e.seq, "admission used a max_cost that no completed or concurrent update_max_cost set", format!("add({}) read max_cost={} but allowed {:?}", key, max_cost, allowed)));
                }
                enter = Some((*key, *cost, *max_cost, *used, key_costs.clone()));
            }
            EvKind::Obs(ObsEv::CostUpdate { prev, cost, .. }) => {
                if cost > prev {
                    slack_updates += cost - prev;
                    out.probe("cost_increasing_update", 1);
                }
            }
            EvKind::Obs(ObsEv::AddExit { key, cost, added, victims, max_cost, used, key_costs }) => {
                let sum: i64 = key_costs.iter().map(|(_, c)| *c).sum();
                if sum != *used {
                    out.violations.push(viol("C01", "R1-used-ne-sum", e.seq, "charged total differs from the sum of per-entry charges", format!("at add({}) exit: used={} sum={} costs={:?}", key, used, sum, key_costs)));
                }
                if let Some((ek, ecost, emax, eused, ecosts)) = enter.take() {
                    if ek == *key {
                        let was_charged = ecosts.iter().any(|(k, _)| k == key);
                        if ecost > emax && !was_charged {
                            out.probe("oversize_reject", 1);
                            if *added || victims.as_ref().map_or(false, |v| !v.is_empty()) || *key_costs != ecosts {
                                out.violations.push(viol("C01", "R3-oversize-admitted", e.seq, "entry costing more than max_cost admitted or evicted something", format!("add({}, cost {}) with max_cost {}: added={} victims={:?}", key, cost, emax, added, victims)));
                            }
                        }
                        if ecost > emax && was_charged {
                            // a key that is already charged (vetoed replacement, index collision,
                            // an earlier insert of the same new key still buffered): refused all the
                            // same, and a refusal changes no charge
                            out.probe("oversize_reject_for_a_charged_key", 1);
                            if *added || victims.as_ref().map_or(false, |v| !v.is_empty()) || *key_costs != ecosts {
                                out.violations.push(viol("C01", "R3-oversize-changed-a-charge", e.seq, "refused entry costing more than max_cost changed the charge of a resident entry", format!("add({}, cost {}) with max_cost {}: added={} victims={:?} charges before {:?} after {:?}", key, cost, emax, added, victims, ecosts, key_costs)));
                            }
                        }
                        if *added && !was_charged {
                            out.nontrivial = true;
                            if victims.as_ref().map_or(false, |v| !v.is_empty()) {
                                out.probe("admission_with_eviction", 1);
                            }
                            if eused > emax {
                                out.probe("admission_from_over_budget_state", 1);
                            }
                            if *used > *max_cost {
                                out.violations.push(viol("C01", "R2-admission-over-budget", e.seq, "admission of a new key left the charged total above max_cost", format!("add({}, cost {}): used={} max_cost={} victims={:?} costs={:?}", key, cost, used, max_cost, victims, key_costs)));
                            }
                            slack_updates = 0;
                            max_at_last_admission = *max_cost;
                        }
                    }
                }
            }
            EvKind::Checkpoint { snap, .. } => {
                if let Some((max_now, used, costs)) = &snap.policy {
                    let sum: i64 = costs.iter().map(|(_, c)| *c).sum();
                    if sum != *used {
                        out.violations.push(viol("C01", "R1-used-ne-sum", e.seq, "charged total differs from the sum of per-entry charges", format!("checkpoint: used={} sum={} costs={:?}", used, sum, costs)));
                    }
                    let slack = slack_updates + (max_at_last_admission - max_now).max(0);
                    if used - max_now > slack.max(0) {
                        out.violations.push(viol("C01", "R4-excess-beyond-slack", e.seq, "charged total exceeds max_cost by more than updates and lowered max_cost account for", format!("used={} max_cost={} slack(updates={}, max lowered from {})", used, max_now, slack_updates, max_at_last_admission)));
                    }
                    if *used > *max_now {
                        out.probe("over_budget_at_checkpoint", 1);
                    }
                    // R5: max_cost() reports the last completed update
                    let allowed = allowed_max(e.seq);
                    if !allowed.contains(&snap.max_cost_api) {
                        out.violations.push(viol("C01", "R5-max-cost-api", e.seq, "max_cost() does not return the last update_max_cost value", format!("max_cost()={} allowed {:?}", snap.max_cost_api, allowed)));
                    }
                }
            }
            _ => {}
        }
    }
    out
}

// ------------------------------------------------------------------------------------------
// C07
// ------------------------------------------------------------------------------------------

pub fn check_c07(h: &Hist) -> POut {
    let mut out = POut::new();
    if !h.built_ok {
        return out;
    }
    struct Call {
        seq: u64,
        key: u64,
        cost: i64,
        max: i64,
        used: i64,
        costs: Vec<(u64, i64)>,
        inc_est: i64,
        rounds: Vec<(i64, Vec<(u64, i64, i64)>)>,
    }
    let mut cur: Option<Call> = None;
    let evs: Vec<&Ev> = h.evs.iter().collect();
    let mut i = 0;
    while i < evs.len() {
        let e = evs[i];
        match &e.kind {
            EvKind::Obs(ObsEv::AddEnter { key, cost, max_cost, used, key_costs, inc_est }) => {
                cur = Some(Call { seq: e.seq, key: *key, cost: *cost, max: *max_cost, used: *used, costs: key_costs.clone(), inc_est: *inc_est, rounds: vec![] });
            }
            EvKind::Obs(ObsEv::AddRound { room, sample }) => {
                if let Some(c) = cur.as_mut() {
                    c.rounds.push((*room, sample.clone()));
                }
            }
            EvKind::Obs(ObsEv::AddExit { key, added, victims, key_costs, .. }) => {
                let Some(c) = cur.take() else {
                    i += 1;
                    continue;
                };
                if c.key != *key {
                    i += 1;
                    continue;
                }
                let present = c.costs.iter().any(|(k, _)| k == key);
                let vs: Vec<(u64, i64)> = victims.clone().unwrap_or_default();
                if c.cost > c.max || present {
                    // oversize (C01 R3) or an in-place update: not an admission decision
                    if !c.rounds.is_empty() {
                        out.violations.push(viol("C07", "R0-sampled-without-need", e.seq, "eviction sampling ran for an update or an oversize item", format!("add({}) present={} cost={} max={}", key, present, c.cost, c.max)));
                    }
                } else {
                    let room0 = c.max - (c.used + c.cost);
                    if room0 >= 0 {
                        out.probe("admission_with_room", 1);
                        if !*added || !vs.is_empty() || !c.rounds.is_empty() {
                            out.violations.push(viol("C07", "R1-room-but-not-plain-admit", e.seq, "with room left a new key was not simply admitted", format!("add({}, {}): room={} added={} victims={:?} rounds={}", key, c.cost, room0, added, vs, c.rounds.len())));
                        }
                    } else {
                        out.nontrivial = true;
                        // replay the rounds independently
                        let mut live: BTreeMap<u64, i64> = c.costs.iter().copied().collect();
                        let mut used = c.used;
                        let mut rejected = false;
                        let n_res = live.len();
                        if c.rounds.is_empty() {
                            out.violations.push(viol("C07", "R2-no-round-although-no-room", e.seq, "no eviction round although admitting would exceed max_cost", format!("add({}, {}): room={} added={}", key, c.cost, room0, added)));
                        }
                        for (ri, (_room, sample)) in c.rounds.iter().enumerate() {
                            let room = c.max - (used + c.cost);
                            if room >= 0 {
                                out.violations.push(viol("C07", "R2-evicting-with-room", e.seq, "an eviction round started although there was room", format!("add({}, {}): round {} room={}", key, c.cost, ri, room)));
                                break;
                            }
                            if rejected {
                                out.violations.push(viol("C07", "R5-round-after-reject", e.seq, "rounds continued after the newcomer lost", format!("add({})", key)));
                                break;
                            }
                            if ri == 0 {
                                out.probe("eviction_round", 1);
                                let want = n_res.min(5);
                                let distinct: BTreeSet<u64> = sample.iter().map(|s| s.0).collect();
                                let all_res = sample.iter().all(|(k, cst, _)| live.get(k) == Some(cst));
                                if sample.len() != want || distinct.len() != want || !all_res {
                                    out.violations.push(viol("C07", "R3-first-sample", e.seq, "first sample is not min(5, residents) distinct residents with their charges", format!("add({}): residents={:?} sample={:?}", key, live, sample)));
                                }
                                if n_res < 5 {
                                    out.probe("fewer_than_five_residents", 1);
                                }
                            } else {
                                if sample.len() > 5 || (!live.is_empty() && !sample.iter().any(|(k, _, _)| live.contains_key(k))) {
                                    out.violations.push(viol("C07", "R3-later-sample", e.seq, "later sample has no live resident although one exists, or more than five entries", format!("add({}): residents={:?} sample={:?}", key, live, sample)));
                                }
                            }
                            if sample.is_empty() {
                                // nothing to evict: the code's min stays i64::MAX, the newcomer loses
                                rejected = true;
                                continue;
                            }
                            let min_est = sample.iter().map(|s| s.2).min().unwrap();
                            let ties = sample.iter().filter(|s| s.2 == min_est).count();
                            if ties > 1 {
                                out.probe("popularity_tie_in_sample", 1);
                            }
                            if c.inc_est < min_est {
                                rejected = true;
                                out.probe("rejected_by_popularity", 1);
                                continue;
                            }
                            // the victim of this round is the next one in the returned list
                            let Some((vk, vc)) = vs.get(ri).copied() else {
                                out.violations.push(viol("C07", "R6-missing-victim", e.seq, "a round that should evict produced no victim", format!("add({}): round {} sample={:?} victims={:?}", key, ri, sample, vs)));
                                break;
                            };
                            let in_sample = sample.iter().find(|s| s.0 == vk);
                            match in_sample {
                                Some((_, scost, sest)) => {
                                    if *sest != min_est {
                                        out.violations.push(viol("C07", "R4-victim-not-least-popular", e.seq, "victim is not the least popular sampled candidate", format!("add({}): round {} victim {} est {} but min est {} sample={:?}", key, ri, vk, sest, min_est, sample)));
                                    }
                                    if *sest > c.inc_est {
                                        out.violations.push(viol("C07", "R5-victim-more-popular", e.seq, "victim more popular than the newcomer", format!("add({}): inc_est={} victim est={}", key, c.inc_est, sest)));
                                    }
                                    if *scost != vc {
                                        out.violations.push(viol("C07", "R6-victim-cost", e.seq, "victim reported with another cost than its charge", format!("victim {} cost {} charge {}", vk, vc, scost)));
                                    }
                                }
                                None => out.violations.push(viol("C07", "R4-victim-not-sampled", e.seq, "victim was not among the sampled candidates", format!("add({}): round {} victim {} sample={:?}", key, ri, vk, sample))),
                            }
                            if let Some(cst) = live.remove(&vk) {
                                used -= cst;
                            }
                        }
                        let n_evicting_rounds = c.rounds.len() - rejected as usize;
                        if vs.len() != n_evicting_rounds {
                            out.violations.push(viol("C07", "R6-victim-count", e.seq, "number of victims differs from the number of evicting rounds", format!("add({}): victims={:?} rounds={} rejected={}", key, vs, c.rounds.len(), rejected)));
                        }
                        if vs.len() >= 2 {
                            out.probe("several_victims", 1);
                        }
                        let room_end = c.max - (used + c.cost);
                        let should_add = !rejected && room_end >= 0;
                        if *added != should_add {
                            out.violations.push(viol(
                                "C07",
                                if *added { "R5-admitted-although-less-popular-or-no-room" } else { "R5-rejected-although-not-less-popular" },
                                e.seq,
                                if *added { "newcomer admitted although it lost or room is still lacking" } else { "newcomer rejected although it was not strictly less popular than the least popular candidate" },
                                format!("add({}, {}): added={} rejected_by_rule={} room_end={} inc_est={} rounds={:?}", key, c.cost, added, rejected, room_end, c.inc_est, c.rounds),
                            ));
                        }
                        // R6: exit state = entry state − live victims (+ key)
                        let mut expect = live.clone();
                        if *added {
                            expect.insert(*key, c.cost);
                        }
                        let got: BTreeMap<u64, i64> = key_costs.iter().copied().collect();
                        if expect != got {
                            out.violations.push(viol("C07", "R6-exit-state", e.seq, "policy state after add differs from entry state minus victims plus newcomer", format!("add({}): expect {:?} got {:?}", key, expect, got)));
                        }
                    }
                }
                // R7: cache level — a refused New item goes to on_reject (same task, before the next add)
                if !*added {
                    let mut j = i + 1;
                    let mut rejects = 0;
                    let mut saw_end = false;
                    while j < evs.len() {
                        let f = evs[j];
                        if f.task == e.task {
                            match &f.kind {
                                EvKind::Cb { kind, index, .. } => {
                                    let is_rej = *kind == CbKind::Reject || (h.plan.cfg.callback != CallbackMode::Full && *kind == CbKind::Exit);
                                    if is_rej && (*index == *key || h.plan.cfg.callback != CallbackMode::Full) {
                                        rejects += 1;
                                    }
                                }
                                EvKind::Obs(ObsEv::AddEnter { .. }) => {
                                    saw_end = true;
                                    break;
                                }
                                _ => {}
                            }
                        }
                        j += 1;
                    }
                    let _ = saw_end;
                    // the processor may have been cut off by the end of the run
                    let run_continues = evs[i + 1..].iter().any(|f| f.task == e.task);
                    if rejects == 0 && run_continues {
                        out.violations.push(viol("C07", "R7-reject-not-reported", e.seq, "refused item not handed to on_reject", format!("add({}) returned added=false at seq {}", key, e.seq)));
                    }
                } else {
                    // every live victim found in the store is reported through on_evict: checked
                    // at the next quiescent point by C06 (store/policy agreement) and C08 (ledger)
                }
                let _ = c.seq;
            }
            _ => {}
        }
        i += 1;
    }
    out
}

// ------------------------------------------------------------------------------------------
// C02
// ------------------------------------------------------------------------------------------

struct Write {
    val: Val,
    key: u64,
    inv: u64,
    ret: u64, // MAX if never returned
    accepted: bool,
}

fn writes_of(h: &Hist) -> Vec<Write> {
    let mut w = Vec::new();
    for o in &h.ops {
        match (&o.op, &o.res) {
            (Op::Insert { k, .. }, r) | (Op::InsertIfPresent { k, .. }, r) => {
                let accepted = match r {
                    Some(Res::Bool(b)) => *b,
                    None => true, // still in flight: may have taken effect
                    _ => false,
                };
                w.push(Write { val: o.val.unwrap(), key: *k, inv: o.inv_seq, ret: o.ret_seq_or_max(), accepted });
            }
            (Op::GetMut { k, write: true, .. }, r) => {
                let accepted = match r {
                    Some(Res::GotMut(Some(_))) => true,
                    None => true,
                    _ => false,
                };
                w.push(Write { val: o.val.unwrap(), key: *k, inv: o.inv_seq, ret: o.ret_seq_or_max(), accepted });
            }
            _ => {}
        }
    }
    w
}

pub fn check_c02(h: &Hist) -> POut {
    let mut out = POut::new();
    if !h.built_ok {
        return out;
    }
    let writes = writes_of(h);
    let by_id: BTreeMap<u64, &Write> = writes.iter().map(|w| (w.val.id, w)).collect();
    // lookups
    for o in &h.ops {
        let (k, got): (u64, Vec<Val>) = match (&o.op, &o.res) {
            (Op::Get { k, .. }, Some(Res::Got(Some((a, b, _))))) => (*k, vec![*a, *b]),
            (Op::GetMut { k, .. }, Some(Res::GotMut(Some((a, _))))) => (*k, vec![*a]),
            _ => continue,
        };
        out.nontrivial = true;
        if let (Op::Get { .. }, Some(Res::Got(Some((a, b, _))))) = (&o.op, &o.res) {
            if a != b {
                out.violations.push(viol("C02", "R6-held-ref-changed", o.ret_seq.unwrap(), "value changed under a held ValueRef", format!("get({}) saw {:?} then {:?}", k, a, b)));
            }
            if let Op::Get { hold, .. } = o.op {
                if hold > 0 {
                    out.probe("value_ref_held_across_scheduling_points", 1);
                }
            }
        }
        for v in got {
            if v.key != k {
                out.violations.push(viol("C02", "R1-foreign-value", o.ret_seq.unwrap(), "lookup returned a value written under another key", format!("{}({}) returned {:?}", o.op.name(), k, v)));
                continue;
            }
            let Some(w) = by_id.get(&v.id) else {
                out.violations.push(viol("C02", "R2-unwritten-value", o.ret_seq.unwrap(), "lookup returned a value nobody wrote", format!("{}({}) returned {:?}", o.op.name(), k, v)));
                continue;
            };
            if v != w.val {
                out.violations.push(viol("C02", "R2-torn-value", o.ret_seq.unwrap(), "lookup returned a half-written value (an in-place update through get_mut was visible before its reference was released)", format!("{}({}) returned {:?}; the write with that id wrote {:?}", o.op.name(), k, v, w.val)));
                continue;
            }
            if !w.accepted || w.inv > o.ret_seq.unwrap() {
                out.violations.push(viol("C02", "R2-value-of-refused-or-later-write", o.ret_seq.unwrap(), "lookup returned the value of a write that was refused or had not been invoked", format!("{}({}) returned {:?}; write inv={} ret={} accepted={}", o.op.name(), k, v, w.inv, w.ret, w.accepted)));
            }
            // R3 no resurrection
            for x in h.ops.iter().filter(|x| x.returned() && !matches!(x.res, Some(Res::Err(_)) | Some(Res::Panic(_)))) {
                let hits = match &x.op {
                    Op::Remove { k: rk } => *rk == k,
                    Op::Clear => true,
                    _ => false,
                };
                if !hits || !(w.ret < x.inv_seq) {
                    continue;
                }
                if let Some(q) = h.quiescent_between(x.ret_seq.unwrap(), o.inv_seq) {
                    let clear_in_window = !matches!(x.op, Op::Clear) && h.ops.iter().any(|c| matches!(c.op, Op::Clear | Op::Close) && c.ret_seq_or_max() > w.inv && c.inv_seq < o.inv_seq);
                    let what = if matches!(x.op, Op::Clear) {
                        "clear()"
                    } else if clear_in_window {
                        "remove(k) (with a clear() racing in the same window)"
                    } else {
                        "remove(k)"
                    };
                    out.violations.push(viol(
                        "C02",
                        "R3-resurrected",
                        o.ret_seq.unwrap(),
                        &format!("value written before a {} that had taken effect was returned later", what),
                        format!("{}({}) at seq {} returned {:?} (written, returned at seq {}); {} at [{},{}] and the cache quiesced at seq {}", o.op.name(), k, o.inv_seq, v, w.ret, what, x.inv_seq, x.ret_seq.unwrap(), q.seq),
                    ));
                    break;
                }
            }
        }
    }
    // R4: an in-place replacement is immediate and never rolled back
    for cb in h.cbs.iter().filter(|c| c.kind == CbKind::Exit) {
        let Some(oi) = cb.in_op else { continue };
        let ins = &h.ops[oi];
        if !matches!(ins.op, Op::Insert { .. } | Op::InsertIfPresent { .. }) || !ins.returned() {
            continue;
        }
        let Some(old) = cb.val else { continue };
        out.probe("in_place_replacement", 1);
        for g in h.ops.iter().filter(|g| g.inv_seq > ins.ret_seq.unwrap()) {
            let seen: Vec<Val> = match &g.res {
                Some(Res::Got(Some((a, b, _)))) => vec![*a, *b],
                Some(Res::GotMut(Some((a, _)))) => vec![*a],
                _ => vec![],
            };
            if seen.iter().any(|s| s.id == old.id) {
                out.violations.push(viol("C02", "R4-replacement-rolled-back", g.ret_seq.unwrap(), "a replaced value was returned after the replacing insert had returned", format!("{:?} replaced {:?} (on_exit at seq {}), but {}({}) at seq {} returned it", ins.op, old, cb.seq, g.op.name(), old.key, g.inv_seq)));
            }
        }
    }
    // R4b: after an in-place replacement by v_new, an *older* write must not resurface while
    // v_new has not left through any callback (and no clear intervened): that is a rollback.
    for cb in h.cbs.iter().filter(|c| c.kind == CbKind::Exit) {
        let Some(oi) = cb.in_op else { continue };
        let ins = &h.ops[oi];
        if !matches!(ins.op, Op::Insert { .. } | Op::InsertIfPresent { .. }) || !ins.returned() {
            continue;
        }
        let (Some(vnew), Some(k)) = (ins.val, ins.op.key()) else { continue };
        if matches!(h.plan.cfg.keys, KeyMode::Collide { .. }) {
            continue;
        }
        for g in h.ops.iter().filter(|g| g.inv_seq > ins.ret_seq.unwrap() && g.op.key() == Some(k)) {
            let seen: Option<Val> = match &g.res {
                Some(Res::Got(Some((a, _, _)))) => Some(*a),
                Some(Res::GotMut(Some((a, _)))) => Some(*a),
                _ => None,
            };
            let Some(v) = seen else { continue };
            if v.id == vnew.id {
                continue;
            }
            let Some(w) = by_id.get(&v.id) else { continue };
            if !(w.ret < ins.inv_seq) {
                continue; // not strictly older than the replacement
            }
            let vnew_left = h.cbs.iter().any(|c| c.val.map(|x| x.id) == Some(vnew.id) && c.seq < g.ret_seq.unwrap());
            let cleared = h.ops.iter().any(|c| matches!(c.op, Op::Clear | Op::Close) && c.ret_seq_or_max() > ins.inv_seq && c.inv_seq < g.inv_seq);
            let overwritten_in_place = h.ops.iter().any(|m| matches!(m.op, Op::GetMut { write: true, .. }) && m.op.key() == Some(k) && m.inv_seq < g.ret_seq.unwrap() && m.ret_seq_or_max() > ins.inv_seq);
            if !vnew_left && !cleared && !overwritten_in_place {
                out.violations.push(violk("C02", "R4-older-write-resurfaced", g.ret_seq.unwrap(), k, "after an in-place replacement an older write of the key was returned although the new value never left the cache", format!("{:?} (seq [{},{}]) replaced the resident value with {:?}; {}({}) at seq {} returned the older {:?} (its write returned at seq {})", ins.op, ins.inv_seq, ins.ret_seq.unwrap(), vnew, g.op.name(), k, g.inv_seq, v, w.ret)));
                break;
            }
        }
    }
    // R5: quiescent exactness (default validator; keys whose writes are separated by quiescent points)
    if h.plan.cfg.validator == Validator::Always {
        let mut per_key: BTreeMap<u64, Vec<&Write>> = BTreeMap::new();
        for w in &writes {
            per_key.entry(w.key).or_default().push(w);
        }
        let collide = matches!(h.plan.cfg.keys, KeyMode::Collide { .. });
        // a successful wait() of the writing client is a barrier too (C10): between two writes of
        // a key that only this client writes it separates them just like a quiescent point
        let no_clear = !h.ops.iter().any(|o| matches!(o.op, Op::Clear | Op::Close));
        let waited_between = |client: usize, lo: u64, hi: u64| -> bool {
            no_clear && h.ops.iter().any(|o| o.client == client && matches!(o.op, Op::Wait) && matches!(o.res, Some(Res::Unit)) && o.inv_seq > lo && o.ret_seq_or_max() < hi)
        };
        let writer_of = |w: &Write| h.ops.iter().find(|o| o.val.map(|v| v.id) == Some(w.val.id)).map(|o| o.client);
        for (k, ws) in per_key.iter_mut() {
            ws.sort_by_key(|w| w.inv);
            let single_writer = ws.iter().map(|w| writer_of(w)).collect::<BTreeSet<_>>().len() == 1 && !h.ops.iter().any(|o| matches!(o.op, Op::Remove { .. }) && o.op.key() == Some(*k) && Some(o.client) != ws.first().and_then(|w| writer_of(w)));
            let separated = ws.windows(2).all(|p| p[0].ret != u64::MAX && (h.quiescent_between(p[0].ret, p[1].inv).is_some() || (single_writer && writer_of(p[0]).map_or(false, |c| waited_between(c, p[0].ret, p[1].inv)))));
            if !separated || collide {
                continue;
            }
            for g in h.ops.iter().filter(|g| g.op.key() == Some(*k) && matches!(g.op, Op::Get { .. } | Op::GetMut { .. }) && g.returned()) {
                let last = ws.iter().filter(|w| w.ret < g.inv_seq).last();
                let Some(last) = last else { continue };
                // need quiescence between the last write and the lookup, and no write in flight
                if ws.iter().any(|w| w.inv < g.ret_seq.unwrap() && w.ret > g.inv_seq) {
                    continue;
                }
                if h.quiescent_between(last.ret, g.inv_seq).is_none() && !(single_writer && writer_of(last) == Some(g.client) && waited_between(g.client, last.ret, g.inv_seq)) {
                    continue;
                }
                let seen: Option<Val> = match &g.res {
                    Some(Res::Got(Some((a, _, _)))) => Some(*a),
                    Some(Res::GotMut(Some((a, _)))) => Some(*a),
                    _ => None,
                };
                if let Some(v) = seen {
                    out.probe("quiescent_lookup_hit", 1);
                    // the last *accepted* write
                    let last_acc = ws.iter().filter(|w| w.ret < g.inv_seq && w.accepted).last();
                    if let Some(la) = last_acc {
                        if v.id != la.val.id && v.key == *k {
                            out.violations.push(viol("C02", "R5-stale-at-quiescence", g.ret_seq.unwrap(), "after quiescence a lookup returned a value other than the last one written", format!("{}({}) returned {:?}, last accepted write {:?} (ret seq {})", g.op.name(), k, v, la.val, la.ret)));
                        }
                    }
                }
            }
        }
    }
    out
}

// ------------------------------------------------------------------------------------------
// C08
// ------------------------------------------------------------------------------------------

pub fn check_c08(h: &Hist) -> POut {
    let mut out = POut::new();
    if !h.built_ok {
        return out;
    }
    // every handle dropped while accepted items were still buffered: the stop handling hands such
    // items back (on_evict); one that was never applied and reached no callback has vanished
    if h.plan.has_tag("drop_busy") && !h.ops.iter().any(|o| matches!(o.op, Op::Clear | Op::Close)) && first_error_seq(h) == u64::MAX && h.evs.iter().any(|e| matches!(&e.kind, EvKind::Note(s) if s == "drop_all")) {
        for o in h.ops.iter().filter(|o| matches!(o.op, Op::Insert { .. }) && o.ok_true()) {
            let Some(v) = o.val else { continue };
            out.nontrivial = true;
            let any_cb = h.cbs.iter().any(|c| c.val.map(|x| x.id) == Some(v.id));
            let applied = h.obs().any(|(e, ob)| e.seq > o.inv_seq && matches!(ob, ObsEv::AddExit { key, .. } if *key == h.index_of(v.key)));
            let in_place = h.cbs.iter().any(|c| c.in_op.map(|i| h.ops[i].inv_seq) == Some(o.inv_seq));
            if !any_cb && !applied && !in_place {
                out.violations.push(viol("C08", "R1-vanished-in-buffer-at-drop", o.ret_seq.unwrap(), "accepted value was still buffered when the last handle was dropped and reached no callback", format!("value {:?} accepted at seq {}: never applied by the processor, never handed to a callback", v, o.ret_seq.unwrap())));
            }
        }
    }
    let Some(final_cp) = h.cps.iter().filter(|c| c.quiescent).last() else { return out };
    let Some(entries) = final_cp.snap.entries.as_ref() else { return out };
    let has_getmut_write = h.ops.iter().any(|o| matches!(o.op, Op::GetMut { write: true, .. }));
    let any_clear_ret: Vec<u64> = h.ops.iter().filter(|o| matches!(o.op, Op::Clear | Op::Close)).map(|o| o.ret_seq_or_max()).collect();
    let err_at = first_error_seq(h);
    for o in h.ops.iter().filter(|o| matches!(o.op, Op::Insert { .. } | Op::InsertIfPresent { .. })) {
        let Some(v) = o.val else { continue };
        if o.inv_seq > final_cp.seq {
            continue;
        }
        let cbs: Vec<&CbRec> = h.cbs.iter().filter(|c| c.val.map(|x| x.id) == Some(v.id) && c.seq < final_cp.seq).collect();
        let resident = entries.iter().filter(|e| e.val.id == v.id).count();
        let accepted = o.ok_true();
        if accepted {
            out.nontrivial = true;
            let total = resident + cbs.len();
            if total > 1 {
                out.violations.push(viol("C08", "R2-more-than-once", final_cp.seq, "value resident and handed to a callback, or handed to callbacks twice", format!("value {:?}: resident={} callbacks={:?}", v, resident, cbs.iter().map(|c| (c.kind, c.seq, c.task.clone())).collect::<Vec<_>>())));
            }
            if total == 0 && o.ret_seq_or_max() < final_cp.seq {
                let exempt = any_clear_ret.iter().any(|c| *c > o.inv_seq) || has_getmut_write || o.ret_seq_or_max() > err_at || err_at < final_cp.seq;
                // stricter sub-case: the value never reached the processor at all (no policy.add for
                // its index after the insert began) although only a close() — which drains buffered
                // items through on_evict — intervened
                let applied = h.obs().any(|(e, ob)| e.seq > o.inv_seq && matches!(ob, ObsEv::AddExit { key, .. } if *key == h.index_of(v.key)));
                let in_place = h.cbs.iter().any(|c| c.in_op.map(|i| h.ops[i].inv_seq) == Some(o.inv_seq));
                let closed_only = h.ops.iter().any(|c| matches!(c.op, Op::Close) && c.ret_seq_or_max() > o.inv_seq) && !h.ops.iter().any(|c| matches!(c.op, Op::Clear) && c.ret_seq_or_max() > o.inv_seq);
                if exempt && closed_only && !applied && !in_place && !has_getmut_write && err_at == u64::MAX {
                    out.violations.push(viol("C08", "R1-vanished-in-buffer-at-close", final_cp.seq, "accepted value was still buffered when close() ran and was dropped without any callback", format!("value {:?} accepted at seq {} never reached the processor and no callback fired", v, o.ret_seq_or_max())));
                }
                if !exempt {
                    out.violations.push(viol("C08", "R1-vanished", final_cp.seq, "accepted value neither resident nor handed to any callback (no clear/close involved)", format!("value {:?} accepted at seq {} is gone without a callback", v, o.ret_seq_or_max())));
                }
            }
            if !cbs.is_empty() {
                out.probe("value_left_through_callback", 1);
            }
        } else if matches!(o.res, Some(Res::Bool(false))) {
            // R5: a refused value is never seen again
            if resident > 0 {
                out.violations.push(viol("C08", "R5-refused-value-resident", final_cp.seq, "value of an insert that returned false is resident", format!("value {:?}", v)));
            }
        }
        // R3: never returned by a lookup invoked after its callback
        if let Some(first_cb) = cbs.iter().map(|c| c.seq).min() {
            for g in h.ops.iter().filter(|g| g.inv_seq > first_cb) {
                let seen: Vec<Val> = match &g.res {
                    Some(Res::Got(Some((a, b, _)))) => vec![*a, *b],
                    Some(Res::GotMut(Some((a, _)))) => vec![*a],
                    _ => vec![],
                };
                if seen.iter().any(|s| s.id == v.id) {
                    out.violations.push(viol("C08", "R3-returned-after-callback", g.ret_seq.unwrap(), "a value already handed to a callback was returned by a later lookup", format!("value {:?}: callback at seq {}, {}({}) invoked at seq {} returned it", v, first_cb, g.op.name(), v.key, g.inv_seq)));
                    break;
                }
            }
        }
    }
    // R4: kinds
    if h.plan.cfg.callback == CallbackMode::Full {
        for c in &h.cbs {
            let on_client = c.task.starts_with('c') || c.task.starts_with('x') || c.task == "main";
            if on_client && c.kind != CbKind::Exit {
                // a clear() drains nothing on the caller; close() neither
                out.violations.push(viol("C08", "R4-kind-on-client", c.seq, "callback other than on_exit fired on a client thread", format!("{:?} for {:?} on {}", c.kind, c.val, c.task)));
            }
            if on_client {
                let ok = c.in_op.map_or(false, |i| matches!(h.ops[i].op, Op::Insert { .. } | Op::InsertIfPresent { .. } | Op::Remove { .. }));
                if !ok {
                    out.violations.push(viol("C08", "R4-callback-outside-write", c.seq, "callback on a client thread outside insert/remove", format!("{:?} for {:?} on {} in_op={:?}", c.kind, c.val, c.task, c.in_op.map(|i| h.ops[i].op.clone()))));
                }
            }
        }
    } else {
        out.probe("exit_only_callback_variant", 1);
    }
    // R6: which callback.  A value the policy refused goes to on_reject - whose default hands it
    // to on_exit - and never to on_evict (which is for entries that were resident).  Visible
    // whenever on_evict can be told from the others (Full, ExitEvict).
    if h.plan.cfg.callback != CallbackMode::ExitOnly {
        let mut refused: BTreeMap<String, u64> = BTreeMap::new();
        for e in h.evs {
            match &e.kind {
                EvKind::Obs(ObsEv::AddExit { key, added: false, .. }) => {
                    refused.insert(e.task.clone(), *key);
                }
                EvKind::Obs(ObsEv::AddEnter { .. }) | EvKind::Obs(ObsEv::AddExit { added: true, .. }) => {
                    refused.remove(&e.task);
                }
                // the first callback on that task after the refusal is the refusal's own report
                // (handle_item reports it before it turns to the victims)
                EvKind::Cb { kind, index, val, .. } if refused.contains_key(&e.task) => {
                    let key = refused.remove(&e.task).unwrap();
                    if *kind == CbKind::Evict && *index == key {
                        out.violations.push(viol("C08", "R6-refused-value-to-on-evict", e.seq, "a value the policy refused was handed to on_evict", format!("on_evict for index {} value {:?} right after policy.add refused it", index, val)));
                    }
                    if *kind == CbKind::Exit && h.plan.cfg.callback == CallbackMode::ExitEvict {
                        out.probe("default_on_reject_forwarded_to_on_exit", 1);
                    }
                }
                _ => {}
            }
        }
    }
    out
}

// ------------------------------------------------------------------------------------------
// C10
// ------------------------------------------------------------------------------------------

pub fn check_c10(h: &Hist) -> POut {
    let mut out = POut::new();
    if !h.built_ok {
        return out;
    }
    // wait() on another cache of the same process, called from this cache's callback (i.e. from
    // its processor thread), is a barrier for that cache like any other wait()
    for e in h.evs.iter() {
        if let EvKind::Note(s) = &e.kind {
            if s.starts_with("decoy-wait-barrier-failed") {
                out.violations.push(viol("C10", "R1-wait-not-a-barrier-on-a-second-cache", e.seq, "wait() on a second cache, called from a callback of the first, returned before the insert made just before it was applied", s.clone()));
            }
        }
    }
    let clears: Vec<&OpRec> = h.ops.iter().filter(|o| matches!(o.op, Op::Clear | Op::Close)).collect();
    for w in h.ops.iter().filter(|o| matches!(o.op, Op::Wait)) {
        if clears.iter().any(|c| c.inv_seq < w.ret_seq_or_max() && c.ret_seq_or_max() > w.inv_seq) {
            out.probe("wait_overlapping_clear_or_close", 1);
        }
        if !matches!(w.res, Some(Res::Unit)) {
            if matches!(w.res, Some(Res::Err(_))) {
                out.probe("wait_returned_error", 1);
            }
            continue;
        }
        // the snapshot taken in the same atomic step as the return
        let Some(cp) = h.cps.iter().find(|c| !c.quiescent && c.seq > w.ret_seq.unwrap() - 3 && c.seq < w.ret_seq.unwrap()) else { continue };
        let (Some(es), Some((_, _, pol))) = (&cp.snap.entries, &cp.snap.policy) else { continue };
        if cp.snap.is_closed {
            continue;
        }
        out.nontrivial = true;
        let mine: Vec<&OpRec> = h.ops.iter().filter(|o| o.client == w.client && o.idx < w.idx && o.returned()).collect();
        for o in &mine {
            let Some(k) = o.op.key() else { continue };
            let idx = h.index_of(k);
            // the cache was closed meanwhile: nothing to say
            let cleared = clears.iter().any(|c| c.ret_seq_or_max() > o.inv_seq && c.inv_seq < cp.seq);
            // latest operation on this index by anyone, up to the snapshot?
            let later_on_key = h.ops.iter().any(|p| p.inv_seq > o.inv_seq && p.inv_seq < cp.seq && p.op.key().map(|x| h.index_of(x)) == Some(idx) && p.op.is_write());
            let overlapping = h.ops.iter().any(|p| !(p.client == o.client && p.idx == o.idx) && p.op.key().map(|x| h.index_of(x)) == Some(idx) && p.op.is_write() && p.inv_seq < o.ret_seq.unwrap() && p.ret_seq_or_max() > o.inv_seq);
            match (&o.op, &o.res) {
                (Op::Insert { .. }, Some(Res::Bool(true))) | (Op::InsertIfPresent { .. }, Some(Res::Bool(true))) => {
                    let v = o.val.unwrap();
                    // "applied" is judged from what the processor did, not from the state at the
                    // instant of return (the processor may already be busy with later items):
                    // an in-place update took effect inside the call; a New item must have been
                    // consumed (policy.add for its index, or a callback for the value) by now.
                    let in_place = h.cbs.iter().any(|c| c.in_op.map(|i| h.ops[i].inv_seq) == Some(o.inv_seq))
                        || h.evs.iter().any(|e| e.seq > o.inv_seq && e.seq < o.ret_seq.unwrap() && e.task == o.task && matches!(&e.kind, EvKind::Validate { curr, ok: true, .. } if curr.id == v.id));
                    let consumed = h.obs().any(|(e, ob)| e.seq > o.inv_seq && e.seq < w.ret_seq.unwrap() && matches!(ob, ObsEv::AddExit { key, .. } if *key == idx));
                    let had_cb = h.cbs.iter().any(|c| c.val.map(|x| x.id) == Some(v.id) && c.seq < w.ret_seq.unwrap());
                    let resident = es.iter().any(|e| e.val.id == v.id);
                    if !in_place && !consumed && !had_cb && !cleared {
                        out.violations.push(viol("C10", "R1-insert-not-applied", w.ret_seq.unwrap(), "wait() returned Ok before an earlier accepted insert of the same thread was applied or discarded", format!("client {} op#{} {:?} value {:?}: its item was not consumed by the processor before wait returned at seq {} (resident={})", w.client, o.idx, o.op, v, w.ret_seq.unwrap(), resident)));
                    }
                    // (the cache under test: a decoy cache's workers carry a "#n" suffix)
                    let processor_idle = cp.snap.tasks.iter().any(|(n, s)| n.starts_with("processor") && !n.contains('#') && (s == "blocked:select" || s == "blocked:await"));
                    if resident && processor_idle && !cleared && !pol.iter().any(|(k, _)| *k == idx) && !later_on_key && !overlapping {
                        out.violations.push(viol("C10", "R1-resident-not-charged", w.ret_seq.unwrap(), "wait() returned Ok with the processor idle while an applied insert of the same thread is resident but not charged", format!("client {} op#{} {:?}", w.client, o.idx, o.op)));
                    }
                }
                (Op::Remove { .. }, Some(Res::Unit)) => {
                    if later_on_key || overlapping || cleared {
                        continue;
                    }
                    // an insert of the same key still in flight from another client?
                    let in_store = es.iter().any(|e| e.index == idx && (e.val.key == k));
                    let in_policy = pol.iter().any(|(x, _)| *x == idx);
                    // earlier inserts of this key by other clients whose New item was queued after our Delete cannot exist (later_on_key covers them)
                    if in_store || (in_policy && !matches!(h.plan.cfg.keys, KeyMode::Collide { .. })) {
                        out.violations.push(viol("C10", "R2-removed-key-present", w.ret_seq.unwrap(), "wait() returned Ok while a key removed earlier by the same thread is still resident or charged", format!("client {} op#{} remove({}) but store={} policy={}", w.client, o.idx, k, in_store, in_policy)));
                    }
                }
                _ => {}
            }
        }
    }
    out
}

// ------------------------------------------------------------------------------------------
// C11
// ------------------------------------------------------------------------------------------

pub fn check_c11(h: &Hist) -> POut {
    let mut out = POut::new();
    if !h.built_ok {
        return out;
    }
    let closes_before = |seq: u64| h.ops.iter().any(|o| matches!(o.op, Op::Close) && o.inv_seq < seq);
    let clears: Vec<&OpRec> = h.ops.iter().filter(|o| matches!(o.op, Op::Clear) && matches!(o.res, Some(Res::Unit))).collect();
    for c in &clears {
        let Some(cp) = h.cps.iter().find(|p| p.quiescent && p.seq > c.ret_seq.unwrap()) else { continue };
        if closes_before(cp.seq) {
            continue;
        }
        let (Some(es), Some((_, used, pol))) = (&cp.snap.entries, &cp.snap.policy) else { continue };
        out.nontrivial = true;
        if clear_with_pending_one(h, c) {
            out.probe("clear_with_unapplied_insert", 1);
        }
        // values whose insert returned before the clear was invoked
        let mut old_resident = vec![];
        for e in es {
            if let Some(w) = h.ops.iter().find(|o| o.val.map(|v| v.id) == Some(e.val.id)) {
                if w.ret_seq_or_max() < c.inv_seq {
                    old_resident.push(e.val);
                }
            }
        }
        let overlapped = h.ops.iter().any(|o| o.client != c.client && o.client < 90 && o.inv_seq < c.ret_seq.unwrap() && o.ret_seq_or_max() > c.inv_seq && !matches!(o.op, Op::Barrier));
        let ctx = if overlapped { "clients running concurrently" } else { "no concurrent client operation" };
        if !old_resident.is_empty() {
            out.violations.push(viol("C11", "R-survivor", cp.seq, &format!("entry inserted before clear() still resident after it ({})", ctx), format!("clear at [{},{}], checkpoint {} at seq {}: survivors {:?}", c.inv_seq, c.ret_seq.unwrap(), cp.id, cp.seq, old_resident)));
        }
        // charges: only for entries inserted after the invocation
        let idx_new: BTreeSet<u64> = es.iter().filter(|e| !old_resident.iter().any(|v| v.id == e.val.id)).map(|e| e.index).collect();
        let stale_charges: Vec<(u64, i64)> = pol.iter().filter(|(k, _)| !idx_new.contains(k)).copied().collect();
        let inserted_after = h.ops.iter().any(|o| matches!(o.op, Op::Insert { .. } | Op::InsertIfPresent { .. }) && o.ret_seq_or_max() > c.inv_seq && o.inv_seq < cp.seq);
        if !inserted_after && (*used != 0 || !pol.is_empty() || cp.snap.len != 0) {
            out.violations.push(viol("C11", "R-not-empty", cp.seq, &format!("len() or charged cost non-zero after clear() with nothing inserted afterwards ({})", ctx), format!("len={} used={} policy={:?}", cp.snap.len, used, pol)));
        } else if !stale_charges.is_empty() && old_resident.is_empty() {
            out.violations.push(viol("C11", "R-stale-charge", cp.seq, &format!("policy charge for an entry from before clear() ({})", ctx), format!("stale charges {:?}; entries {:?}", stale_charges, es.iter().map(|e| (e.index, e.val.id)).collect::<Vec<_>>())));
        }
        // metrics restart: with nothing at all happening since the clear was invoked they are zero
        if let Some(m) = &cp.snap.metrics {
            let anything_since = h.ops.iter().any(|o| o.inv_seq != c.inv_seq && o.ret_seq_or_max() > c.inv_seq && o.inv_seq < cp.seq && !matches!(o.op, Op::Barrier | Op::Sleep { .. } | Op::Yield | Op::Len | Op::GetTtl { .. } | Op::MaxCost));
            let expired_since = h.cbs.iter().any(|cb| cb.seq > c.inv_seq && cb.seq < cp.seq);
            if !anything_since && !expired_since {
                let all = [m.hits, m.misses, m.keys_added, m.keys_updated, m.keys_evicted, m.cost_added, m.cost_evicted, m.sets_dropped, m.sets_rejected, m.gets_dropped, m.gets_kept];
                if all.iter().any(|x| *x != 0) {
                    out.violations.push(viol("C11", "R-metrics-not-reset", cp.seq, "metrics counters non-zero after clear() with no operation since", format!("{:?}", m)));
                }
            }
        }
    }
    out
}

fn clear_with_pending_one(h: &Hist, c: &OpRec) -> bool {
    h.ops.iter().any(|o| {
        matches!(o.op, Op::Insert { .. })
            && o.ok_true()
            && o.ret_seq_or_max() < c.inv_seq
            && !h.obs().any(|(e, ob)| matches!(ob, ObsEv::AddExit { key, .. } if Some(*key) == o.op.key().map(|k| h.index_of(k))) && e.seq > o.inv_seq && e.seq < c.inv_seq)
            && !h.cbs.iter().any(|cb| cb.in_op.map(|i| h.ops[i].inv_seq) == Some(o.inv_seq))
    })
}

// ------------------------------------------------------------------------------------------
// C12
// ------------------------------------------------------------------------------------------

pub fn check_c12(h: &Hist, tasks_end: &[(String, String)]) -> POut {
    let mut out = POut::new();
    if !h.built_ok {
        return out;
    }
    let closes: Vec<&OpRec> = h.ops.iter().filter(|o| matches!(o.op, Op::Close)).collect();
    let first_ok = closes.iter().filter(|c| matches!(c.res, Some(Res::Unit))).map(|c| c.ret_seq.unwrap()).min();
    if closes.len() >= 2 {
        let overlapping = closes.iter().any(|a| closes.iter().any(|b| a.inv_seq < b.inv_seq && b.inv_seq < a.ret_seq_or_max()));
        if overlapping {
            out.probe("concurrent_closers", 1);
        }
    }
    // close() is idempotent: called any number of times, also concurrently, it reports success
    // (only a dead worker could make it fail, and that is reported on its own)
    let worker_died = tasks_end.iter().any(|(_, s)| s.starts_with("panicked"));
    for c in closes.iter() {
        if let Some(Res::Err(e)) = &c.res {
            if !worker_died {
                let overlapping = closes.iter().any(|b| b.inv_seq != c.inv_seq && b.inv_seq < c.ret_seq_or_max() && b.ret_seq_or_max() > c.inv_seq);
                out.violations.push(viol("C12", "R-close-error", c.ret_seq_or_max(), if overlapping { "a close() racing another close() returned an error" } else { "close() returned an error" }, format!("close by {} at seq [{},{}] returned Err({})", c.task, c.inv_seq, c.ret_seq_or_max(), e)));
            }
        }
    }
    if let Some(c_ok) = first_ok {
        out.nontrivial = true;
        for o in h.ops.iter().filter(|o| o.inv_seq > c_ok && o.returned()) {
            let bad = match (&o.op, o.res.as_ref().unwrap()) {
                (Op::Insert { .. }, Res::Bool(false)) | (Op::InsertIfPresent { .. }, Res::Bool(false)) => false,
                (Op::Insert { .. }, _) | (Op::InsertIfPresent { .. }, _) => true,
                (Op::Get { .. }, Res::Got(None)) | (Op::GetMut { .. }, Res::GotMut(None)) => false,
                (Op::Get { .. }, _) | (Op::GetMut { .. }, _) => true,
                (Op::Remove { .. }, Res::Unit) | (Op::Clear, Res::Unit) | (Op::Wait, Res::Unit) | (Op::Close, Res::Unit) => false,
                (Op::Remove { .. }, _) | (Op::Clear, _) | (Op::Wait, _) | (Op::Close, _) => true,
                _ => false,
            };
            if bad {
                out.violations.push(viol("C12", "R-post-close-result", o.ret_seq.unwrap(), &format!("{} after a successful close() did not return the closed-cache result", o.op.name()), format!("{:?} invoked at seq {} (close returned at {}) returned {:?}", o.op, o.inv_seq, c_ok, o.res)));
            }
            out.probe("operation_after_close", 1);
        }
        // workers finished at the next quiescent checkpoint
        if let Some(cp) = h.cps.iter().find(|p| p.quiescent && p.seq > c_ok) {
            for (n, s) in &cp.snap.tasks {
                if (n.starts_with("processor") || n.starts_with("policy_worker")) && s != "finished" {
                    out.violations.push(viol("C12", "R-worker-alive-after-close", cp.seq, &format!("{} still alive after close()", n.trim_end_matches(|c: char| c == '#' || c.is_ascii_digit())), format!("tasks at checkpoint {}: {:?}", cp.id, cp.snap.tasks)));
                }
            }
            // later operations leave store and policy untouched
            let later: Vec<&CpRec> = h.cps.iter().filter(|p| p.seq > cp.seq).collect();
            for l in later {
                let a = (&cp.snap.entries, &cp.snap.policy);
                let b = (&l.snap.entries, &l.snap.policy);
                let same = format!("{:?}", a.0.as_ref().map(|e| e.iter().map(|x| (x.index, x.val.id)).collect::<Vec<_>>())) == format!("{:?}", b.0.as_ref().map(|e| e.iter().map(|x| (x.index, x.val.id)).collect::<Vec<_>>())) && a.1 == b.1;
                if !same {
                    out.violations.push(viol("C12", "R-post-close-effect", l.seq, "operations after close() changed the store or the policy", format!("before {:?} after {:?}", a.1, b.1)));
                }
            }
        }
    }
    // drop-all: workers end
    if h.plan.finale == Finale::DropAll && closes.is_empty() {
        let dropped = h.evs.iter().any(|e| matches!(&e.kind, EvKind::Note(s) if s == "drop_all"));
        if dropped {
            out.nontrivial = true;
            out.probe("all_handles_dropped_without_close", 1);
            for (n, s) in tasks_end {
                if (n.starts_with("processor") || n.starts_with("policy_worker")) && s != "finished" && !s.starts_with("panicked") {
                    out.violations.push(viol("C12", "R-worker-alive-after-drop", 0, &format!("{} still alive after every handle was dropped", n.trim_end_matches(|c: char| c == '#' || c.is_ascii_digit())), format!("tasks at end: {:?}", tasks_end)));
                }
            }
        }
    }
    out
}

// ------------------------------------------------------------------------------------------
// C17
// ------------------------------------------------------------------------------------------

pub fn check_c17(h: &Hist) -> POut {
    let mut out = POut::new();
    if !h.built_ok || !h.plan.cfg.metrics {
        return out;
    }
    // a clear that overlaps other clients' operations makes the "since the clear" counts intervals;
    // we only evaluate checkpoints whose last clear did not overlap anything (inline clears at barriers)
    let closes: Vec<u64> = h.ops.iter().filter(|o| matches!(o.op, Op::Close)).map(|o| o.inv_seq).collect();
    for cp in h.cps.iter().filter(|c| c.quiescent) {
        if closes.iter().any(|c| *c < cp.seq) {
            break;
        }
        // once the application has reset the counters itself the conservation equations no longer
        // relate them to the cache's contents
        if h.ops.iter().any(|o| matches!(o.op, Op::MetricsReset) && o.inv_seq < cp.seq) {
            break;
        }
        let Some(m) = &cp.snap.metrics else { continue };
        let Some((_, used, pol)) = &cp.snap.policy else { continue };
        let last_clear = h.ops.iter().filter(|o| matches!(o.op, Op::Clear) && o.inv_seq < cp.seq).last();
        let since = match last_clear {
            Some(c) => {
                let overlapped = h.ops.iter().any(|o| !(o.client == c.client && o.idx == c.idx) && o.inv_seq < c.ret_seq_or_max() && o.ret_seq_or_max() > c.inv_seq && !matches!(o.op, Op::Barrier));
                // work still buffered or in progress when the clear ran makes the restart point fuzzy
                let quiet_before = h.quiescent_between(0, c.inv_seq).map_or(false, |q| !h.ops.iter().any(|o| o.inv_seq > q.seq && o.inv_seq < c.inv_seq && !matches!(o.op, Op::Barrier)));
                if overlapped || !c.returned() || !quiet_before {
                    continue;
                }
                c.ret_seq.unwrap()
            }
            None => 0,
        };
        out.nontrivial = true;
        let lookups: u64 = h.ops.iter().filter(|o| o.inv_seq > since && o.ret_seq_or_max() < cp.seq).map(|o| o.op.lookups()).sum();
        if m.hits + m.misses != lookups {
            out.violations.push(viol("C17", "R-hits-plus-misses", cp.seq, "hits + misses differs from the number of lookups", format!("hits={} misses={} lookups={}", m.hits, m.misses, lookups)));
        }
        let hits: u64 = h.ops.iter().filter(|o| o.inv_seq > since && o.ret_seq_or_max() < cp.seq).map(|o| match (&o.op, &o.res) {
            (Op::GetMany { .. }, Some(Res::Num(n))) => *n as u64,
            (_, Some(Res::Got(Some(_)))) | (_, Some(Res::GotMut(Some(_)))) => 1,
            _ => 0,
        }).sum();
        if m.hits != hits {
            out.violations.push(viol("C17", "R-hits", cp.seq, "hits differs from the number of lookups that returned a value", format!("hits={} lookups that hit={}", m.hits, hits)));
        }
        if m.keys_added.wrapping_sub(m.keys_evicted) != pol.len() as u64 {
            out.violations.push(viol("C17", "R-keys-conservation", cp.seq, "keys_added - keys_evicted differs from the number of charged entries", format!("added={} evicted={} charged={}", m.keys_added, m.keys_evicted, pol.len())));
        }
        if m.cost_added.wrapping_sub(m.cost_evicted) != *used as u64 {
            out.violations.push(viol("C17", "R-cost-conservation", cp.seq, "cost_added - cost_evicted differs from the charged total", format!("added={} evicted={} used={}", m.cost_added, m.cost_evicted, used)));
        }
        // every read-out surface shows the same numbers as the getters (quiescent: nothing moves)
        for (surface, name, v) in &m.readouts {
            let want = match name.as_str() {
                "hit" => Some(m.hits),
                "miss" => Some(m.misses),
                "keys-added" => Some(m.keys_added),
                "keys-updated" => Some(m.keys_updated),
                "keys-evicted" => Some(m.keys_evicted),
                "cost-added" => Some(m.cost_added),
                "cost-evicted" => Some(m.cost_evicted),
                "sets-dropped" => Some(m.sets_dropped),
                "sets-rejected" => Some(m.sets_rejected),
                "gets-dropped" => Some(m.gets_dropped),
                "gets-kept" => Some(m.gets_kept),
                "gets-total" => Some(m.hits + m.misses),
                _ => None,
            };
            if let Some(w) = want {
                out.probe("metrics_readout_compared", 1);
                if *v != w {
                    out.violations.push(viol("C17", "R-readout-disagrees", cp.seq, &format!("{} shows another value than the getter for a counter", surface), format!("{} output has {}={} but the getter returns {}", surface, name, v, w)));
                }
            }
        }
        let dropped = h.ops.iter().filter(|o| matches!(o.op, Op::Insert { .. }) && o.inv_seq > since && o.ret_seq_or_max() < cp.seq && matches!(o.res, Some(Res::Bool(false)))).count() as u64
            + h.ops.iter().filter(|o| o.inv_seq > since && o.ret_seq_or_max() < cp.seq).map(|o| match (&o.op, &o.res) {
                (Op::InsertMany { n, .. }, Some(Res::Num(ok))) => n.saturating_sub(*ok as u64),
                _ => 0,
            }).sum::<u64>();
        if m.sets_dropped != dropped {
            out.violations.push(viol("C17", "R-sets-dropped", cp.seq, "sets_dropped differs from the number of inserts refused for lack of buffer space", format!("sets_dropped={} refused inserts={}", m.sets_dropped, dropped)));
        }
        if dropped > 0 {
            out.probe("insert_dropped_for_lack_of_buffer", dropped);
        }
        // popularity rejections seen by the admission observer
        let mut rej = 0u64;
        let mut pending_round_reject = false;
        for (e, o) in h.obs() {
            if e.seq <= since || e.seq > cp.seq {
                continue;
            }
            match o {
                ObsEv::AddEnter { .. } => pending_round_reject = false,
                ObsEv::AddRound { .. } => pending_round_reject = true,
                ObsEv::AddExit { added, .. } => {
                    if !*added && pending_round_reject {
                        rej += 1;
                    }
                    pending_round_reject = false;
                }
                _ => {}
            }
        }
        if m.sets_rejected != rej {
            out.violations.push(viol("C17", "R-sets-rejected", cp.seq, "sets_rejected differs from the policy's popularity rejections", format!("sets_rejected={} observed={}", m.sets_rejected, rej)));
        }
        let expect_ratio = if m.hits + m.misses == 0 { 0.0 } else { m.hits as f64 / (m.hits + m.misses) as f64 };
        if !((m.ratio - expect_ratio).abs() <= 1e-12) {
            out.violations.push(viol("C17", "R-ratio", cp.seq, "ratio() differs from hits / (hits + misses)", format!("ratio={} expected={}", m.ratio, expect_ratio)));
        }
        if m.life_count != m.life_bucket_sum || m.life_count > m.keys_evicted {
            out.violations.push(viol("C17", "R-histogram", cp.seq, "life-expectancy histogram count differs from the sum of its buckets or exceeds the evictions", format!("count={} buckets={} evicted={}", m.life_count, m.life_bucket_sum, m.keys_evicted)));
        }
        if m.life_count > 0 {
            out.probe("life_expectancy_sample_recorded", m.life_count);
        }
    }
    out
}

// ------------------------------------------------------------------------------------------
// C03 under concurrency: rules that stay sound with overlapping clients
// ------------------------------------------------------------------------------------------

pub fn check_c03_concurrent(h: &Hist) -> POut {
    let mut out = POut::new();
    if !h.built_ok || h.plan.has_tag("lockstep") {
        return out;
    }
    let inserts: BTreeMap<u64, &OpRec> = h.ops.iter().filter(|o| matches!(o.op, Op::Insert { .. } | Op::InsertIfPresent { .. })).filter_map(|o| o.val.map(|v| (v.id, o))).collect();
    for g in h.ops.iter().filter(|g| g.returned()) {
        let (v, rem): (Val, Option<u64>) = match &g.res {
            Some(Res::Got(Some((a, _, t)))) => (*a, Some(*t)),
            Some(Res::GotMut(Some((a, _)))) => (*a, None),
            _ => continue,
        };
        let Some(ins) = inserts.get(&v.id) else { continue };
        let ttl = match ins.op {
            Op::Insert { ttl_ns, .. } => ttl_ns,
            _ => 0,
        };
        if ttl == 0 {
            if let Some(t) = rem {
                if t != u64::MAX {
                    out.violations.push(violk("C03", "R-ttl-of-no-ttl", g.ret_seq.unwrap(), v.key, "entry without TTL reports an expiry", format!("{}({}) returned {:?} with remaining ttl {}ns", g.op.name(), v.key, v, t)));
                }
            }
            continue;
        }
        out.nontrivial = true;
        if !ins.returned() {
            continue;
        }
        // the insert read the clock in [inv_now, ret_now]
        if g.inv_now >= ins.ret_now + ttl {
            out.probe("lookup_after_deadline_returned_value", 1);
            out.violations.push(violk("C03", "R-served-after-ttl", g.ret_seq.unwrap(), v.key, "entry returned after its TTL elapsed", format!("{}({}) at [{},{}] returned {:?}; inserted at [{},{}] with ttl {}ns", g.op.name(), v.key, g.inv_now, g.ret_now, v, ins.inv_now, ins.ret_now, ttl)));
        }
        if let Some(t) = rem {
            let lo = ttl.saturating_sub(g.ret_now.saturating_sub(ins.inv_now));
            let hi = ttl.saturating_sub(g.inv_now.saturating_sub(ins.ret_now));
            if t == u64::MAX || t > ttl || t < lo || t > hi {
                out.violations.push(violk("C03", "R-ttl-value", g.ret_seq.unwrap(), v.key, "reported remaining TTL outside the possible interval", format!("{}({}) reported {}ns for {:?}; ttl {} insert@[{},{}] lookup@[{},{}] allows [{},{}]", g.op.name(), v.key, t, v, ttl, ins.inv_now, ins.ret_now, g.inv_now, g.ret_now, lo, hi)));
            }
            out.probe("remaining_ttl_checked_under_concurrency", 1);
        }
    }
    out
}

// ------------------------------------------------------------------------------------------
// C09 under concurrency: the validator's verdict and the swap belong to one atomic step
// ------------------------------------------------------------------------------------------

pub fn check_c09_concurrent(h: &Hist) -> POut {
    let mut out = POut::new();
    if !h.built_ok || h.plan.cfg.callback != CallbackMode::Full {
        return out;
    }
    for (oi, o) in h.ops.iter().enumerate() {
        if !matches!(o.op, Op::Insert { .. } | Op::InsertIfPresent { .. }) || !o.returned() {
            continue;
        }
        let Some(v) = o.val else { continue };
        // validator consultations and swaps (on_exit on the caller's task) inside this operation
        let validations: Vec<(Val, bool, u64)> = h
            .evs
            .iter()
            .filter(|e| e.seq > o.inv_seq && e.seq < o.ret_seq.unwrap() && e.task == o.task)
            .filter_map(|e| match &e.kind {
                EvKind::Validate { prev, curr, ok } if curr.id == v.id => Some((*prev, *ok, e.seq)),
                _ => None,
            })
            .collect();
        let swaps: Vec<&CbRec> = h.cbs.iter().filter(|c| c.in_op == Some(oi) && c.kind == CbKind::Exit).collect();
        if !validations.is_empty() {
            out.nontrivial = true;
        }
        for s in &swaps {
            let Some(old) = s.val else { continue };
            match validations.iter().filter(|(_, _, seq)| *seq < s.seq).last() {
                None => {
                    if h.plan.cfg.validator != Validator::Always {
                        out.violations.push(violk("C09", "R-swap-without-validation", s.seq, v.key, "a resident value was replaced without consulting the validator", format!("{:?} replaced {:?} with {:?}", o.op, old, v)));
                    }
                }
                Some((prev, ok, _)) => {
                    if !*ok {
                        out.violations.push(violk("C09", "R-veto-ignored", s.seq, v.key, "the validator vetoed the replacement but the resident value was replaced", format!("{:?}: validator vetoed {:?} -> {:?}, yet {:?} was swapped out", o.op, prev, v, old)));
                    } else if prev.id != old.id {
                        out.probe("validator_decision_raced_by_another_writer", 1);
                        out.violations.push(violk("C09", "R-validated-against-another-value", s.seq, v.key, "the value replaced is not the value the validator approved the replacement of", format!("{:?}: validator approved {:?} -> {:?}, but the value swapped out was {:?} (a concurrent writer got in between)", o.op, prev, v, old)));
                    }
                }
            }
        }
        // an approval is acted on: the verdict and the swap belong to one critical section, so a
        // consultation of the caller that said yes is followed by the swap inside the same
        // operation (a validator with state of its own must not be asked again and overruled)
        for (prev, ok, seq) in &validations {
            if *ok && !swaps.iter().any(|s| s.seq > *seq) {
                out.violations.push(violk("C09", "R-approval-not-applied", *seq, v.key, "the validator approved the replacement but the resident value was not replaced", format!("{:?}: validator approved {:?} -> {:?} at seq {}, no swap followed inside the operation (consultations in this operation: {:?})", o.op, prev, v, seq, validations.iter().map(|x| x.1).collect::<Vec<_>>())));
                break;
            }
        }
        if validations.len() > 1 {
            out.probe("validator_consulted_more_than_once_in_one_operation", 1);
        }
        if validations.iter().any(|(_, ok, _)| !*ok) {
            out.probe("veto_under_concurrency", 1);
        }
    }
    out
}

// ------------------------------------------------------------------------------------------
// C04 / C05 under concurrency
// ------------------------------------------------------------------------------------------

/// Below capacity nothing is lost, also with several clients: at a quiescent checkpoint the last
/// accepted write of a key (writes separated by quiescence, no later remove, not expired) is
/// resident with its value.
pub fn check_c04_concurrent(h: &Hist) -> POut {
    let mut out = POut::new();
    if !h.built_ok || h.plan.has_tag("lockstep") || !h.plan.has_tag("under_capacity") {
        return out;
    }
    if h.plan.cfg.validator != Validator::Always || matches!(h.plan.cfg.keys, KeyMode::Collide { .. }) || h.over_capacity_seen() {
        return out;
    }
    if h.ops.iter().any(|o| matches!(o.op, Op::Clear | Op::Close | Op::GetMut { write: true, .. })) || first_error_seq(h) != u64::MAX {
        return out;
    }
    if h.ops.iter().any(|o| matches!(o.res, Some(Res::Bool(false))) && matches!(o.op, Op::Insert { .. })) {
        return out; // the insert buffer overflowed: outside the premise
    }
    let mut per_key: BTreeMap<u64, Vec<&OpRec>> = BTreeMap::new();
    for o in h.ops.iter().filter(|o| matches!(o.op, Op::Insert { .. } | Op::InsertIfPresent { .. } | Op::Remove { .. })) {
        per_key.entry(o.op.key().unwrap()).or_default().push(o);
    }
    for cp in h.cps.iter().filter(|c| c.quiescent) {
        let Some(es) = &cp.snap.entries else { continue };
        for (k, ws) in per_key.iter() {
            let before: Vec<&&OpRec> = ws.iter().filter(|o| o.inv_seq < cp.seq).collect();
            if before.iter().any(|o| !o.returned() || o.ret_seq.unwrap() > cp.seq) {
                continue;
            }
            let separated = before.windows(2).all(|p| h.quiescent_between(p[0].ret_seq.unwrap(), p[1].inv_seq).is_some());
            if !separated {
                continue;
            }
            let Some(last) = before.last() else { continue };
            let (Op::Insert { ttl_ns, .. }, true) = (&last.op, last.ok_true()) else { continue };
            if *ttl_ns > 0 && cp.now >= last.inv_now + ttl_ns {
                continue; // may have expired
            }
            out.nontrivial = true;
            let idx = h.index_of(*k);
            match es.iter().find(|e| e.index == idx) {
                Some(e) if Some(e.val.id) == last.val.map(|v| v.id) => {}
                other => out.violations.push(violk("C04", "R-lost-concurrent", cp.seq, *k, "below capacity an accepted entry is missing at a quiescent point (several clients)", format!("checkpoint {}: key {} last written by {:?} (value {:?}) but the store has {:?}", cp.id, k, last.op, last.val, other.map(|e| e.val)))),
            }
        }
    }
    // nothing is refused or evicted below capacity
    for c in h.cbs.iter().filter(|c| c.kind == CbKind::Reject && h.plan.cfg.callback == CallbackMode::Full) {
        // a duplicate New for a key whose first New is still pending is legitimately refused
        let Some(v) = c.val else { continue };
        // ... and so is an insert racing a remove of the same key (the Delete may be queued behind it)
        let dup = h.ops.iter().any(|o| o.op.key() == Some(v.key) && o.val.map(|x| x.id) != Some(v.id) && matches!(o.op, Op::Insert { .. } | Op::InsertIfPresent { .. } | Op::Remove { .. }) && o.inv_seq < c.seq && h.quiescent_between(o.inv_seq, c.seq).is_none());
        if !dup {
            out.violations.push(violk("C04", "R-rejected-below-capacity", c.seq, v.key, "an insert was rejected by the policy although the cache is below capacity", format!("on_reject for {:?} (cost {})", v, c.cost)));
        }
    }
    out
}

/// An entry whose TTL elapsed long ago must not be resident at a quiescent point (fault-free
/// plans): deadline + one bucket width + one cleanup interval.
pub fn check_c05_concurrent(h: &Hist) -> POut {
    let mut out = POut::new();
    if !h.built_ok || h.plan.has_tag("lockstep") || h.plan.has_tag("faulty") {
        return out;
    }
    if h.ops.iter().any(|o| matches!(o.op, Op::Jump { .. } | Op::Close)) {
        return out;
    }
    let cleanup = h.plan.cfg.cleanup_ms * 1_000_000;
    for cp in h.cps.iter().filter(|c| c.quiescent) {
        let Some(es) = &cp.snap.entries else { continue };
        for e in es.iter().filter(|e| e.ttl_ns > 0) {
            let deadline = e.created_ns + e.ttl_ns;
            if cp.now > deadline {
                out.nontrivial = true;
            }
            // the delay is bounded from the moment the entry was in the store with that deadline:
            // an item applied late (processor or client stalled in virtual time) can only be
            // swept by a tick after its application
            let idx = e.index;
            let applied_by_processor = h.obs().filter(|(ev, o)| ev.now <= cp.now && ev.seq < cp.seq && matches!(o, ObsEv::AddExit { key, .. } if *key == idx)).map(|(ev, _)| ev.now).max().unwrap_or(0);
            let applied_by_client = h.ops.iter().filter(|o| matches!(o.op, Op::Insert { .. } | Op::InsertIfPresent { .. }) && o.op.key().map(|k| h.index_of(k)) == Some(idx) && o.returned() && o.ret_seq.unwrap() < cp.seq).map(|o| o.ret_now).max().unwrap_or(0);
            let base = deadline.max(applied_by_processor).max(applied_by_client);
            if cp.now >= base + 1_000_000_000 + cleanup + 1_000_000 {
                out.violations.push(violk("C05", "R2-not-reclaimed-concurrent", cp.seq, e.val.key, "expired entry still resident after bucket width + cleanup interval (several clients, fault-free)", format!("checkpoint {} t={}: {:?} deadline {} cleanup_ms {}", cp.id, cp.now, e.val, deadline, h.plan.cfg.cleanup_ms)));
            }
        }
    }
    out
}

// ------------------------------------------------------------------------------------------
// C05: the periodic cleanup is not starved by insert traffic
// ------------------------------------------------------------------------------------------

/// The processor's event loop chooses among its ready sources; a cleanup tick that is due must
/// be served within a bounded number of applied items, however much insert traffic there is
/// (otherwise "within one bucket width plus one cleanup interval" is void under load).
pub fn check_c05_tick_starvation(h: &Hist) -> POut {
    let mut out = POut::new();
    if !h.built_ok {
        return out;
    }
    // futures::select! serves a ready timer with probability >= 1/4 per round, crossbeam's with
    // 1/2: missing it 100 times in a row has probability < 1e-12
    const K: usize = 100;
    // item applications by the processor, with the virtual time at which they started
    let items: Vec<(u64, u64)> = h.obs().filter(|(e, o)| e.task.starts_with("processor") && matches!(o, ObsEv::AddEnter { .. } | ObsEv::CostUpdate { .. })).map(|(e, _)| (e.seq, e.now)).collect();
    let mut worst = 0usize;
    let mut flagged = false;
    for (e, o) in h.obs() {
        let ObsEv::TickTaken { due_ns } = o else { continue };
        let n = items.iter().filter(|(seq, now)| *now >= *due_ns && *seq < e.seq).count();
        // only items applied after the tick became due AND before it was taken count; earlier
        // ticks' windows overlap, so count from the previous TickTaken
        let prev_taken = h.obs().filter(|(f, p)| matches!(p, ObsEv::TickTaken { .. }) && f.seq < e.seq).map(|(f, _)| f.seq).last().unwrap_or(0);
        let n = n.min(items.iter().filter(|(seq, now)| *now >= *due_ns && *seq < e.seq && *seq > prev_taken).count());
        worst = worst.max(n);
        if n > K && !flagged {
            flagged = true;
            out.violations.push(viol("C05", "R4-cleanup-tick-starved", e.seq, "a due cleanup tick was served only after dozens of buffered items had been applied", format!("the tick due at t={} was taken at seq {} after {} item applications that started while it was due (bound {})", due_ns, e.seq, n, K)));
        }
    }
    if worst > 0 {
        out.probe("items_applied_while_a_tick_was_due_(max_per_run)", worst as u64);
        out.nontrivial = true;
    }
    out
}
