//! Command line: `dst check <id> [--tier quick|thorough]`, `dst replay <file>`, `dst one ...`.

use crate::hist::Violation;
use crate::plan::Plan;
use crate::runner::*;
use serde::{Deserialize, Serialize};
use std::collections::BTreeMap;

pub const ALL_PROPS: &[&str] = &["C01", "C02", "C03", "C04", "C05", "C06", "C07", "C08", "C09", "C10", "C11", "C12", "C13", "C15", "C16", "C17", "C18", "C19", "C20"];

fn verif_dir() -> std::path::PathBuf {
    std::env::var("DST_VERIF_DIR").map(std::path::PathBuf::from).unwrap_or_else(|_| std::path::PathBuf::from("/verif"))
}

fn base_seed() -> u64 {
    std::env::var("VERIF_SEED").ok().and_then(|s| s.parse::<u64>().ok()).unwrap_or(20260925)
}

#[derive(Serialize, Deserialize, Clone, Debug)]
pub struct KnownFinding {
    #[serde(default)]
    pub property: String,
    #[serde(default)]
    pub rule: String,
    #[serde(default)]
    pub fingerprint: String,
    #[serde(default)]
    pub what: String,
    /// "fixed: property=<id> <commit> <what failed>" entries suppress nothing
    #[serde(default)]
    pub fixed: Option<String>,
}

fn load_known() -> Vec<KnownFinding> {
    let p = verif_dir().join("known_findings.jsonl");
    let Ok(s) = std::fs::read_to_string(p) else { return vec![] };
    s.lines().filter(|l| !l.trim().is_empty() && !l.trim_start().starts_with('#')).filter_map(|l| serde_json::from_str(l).ok()).collect()
}

pub fn tier_runs(prop: &str, tier: &str) -> u64 {
    let quick: u64 = match prop {
        "C19" => 20_000,
        "C03" | "C04" | "C05" | "C09" => 30_000,
        _ => 40_000,
    };
    let q = std::env::var("DST_RUNS").ok().and_then(|s| s.parse().ok()).unwrap_or(quick);
    if tier == "thorough" {
        std::env::var("DST_RUNS").ok().and_then(|s| s.parse().ok()).unwrap_or(quick * 10)
    } else {
        q
    }
}

pub fn cli(args: &[String]) -> i32 {
    match args.first().map(|s| s.as_str()) {
        Some("check") => {
            let prop = args.get(1).cloned().unwrap_or_default();
            let mut tier = std::env::var("VERIF_TIER").unwrap_or_else(|_| "quick".into());
            let mut i = 2;
            while i < args.len() {
                if args[i] == "--tier" {
                    tier = args.get(i + 1).cloned().unwrap_or(tier);
                    i += 1;
                }
                i += 1;
            }
            if !ALL_PROPS.contains(&prop.as_str()) {
                eprintln!("unknown property {}", prop);
                return 2;
            }
            cmd_check(&prop, &tier)
        }
        Some("replay") => {
            let Some(path) = args.get(1) else {
                eprintln!("usage: dst replay <file>");
                return 2;
            };
            cmd_replay(path, args.iter().any(|a| a == "--dump"), args.iter().any(|a| a == "--fresh"))
        }
        Some("selftest") => match args.get(1).map(|s| s.as_str()) {
            Some("determinism") => {
                // every run twice, in separate processes, at two worker counts; logs must agree
                let n: u64 = args.get(2).and_then(|s| s.parse().ok()).unwrap_or(300);
                std::env::set_var("DST_PER_RUN", "1");
                let mut bad = 0;
                let mut total = 0;
                for prop in ALL_PROPS {
                    let props: Vec<String> = vec![prop.to_string()];
                    let mut a = batch(prop, base_seed(), n, 16, 600, &props).per_run;
                    let mut b = batch(prop, base_seed(), n, 3, 600, &props).per_run;
                    a.sort();
                    b.sort();
                    total += a.len();
                    if a != b {
                        let diff = a.iter().zip(b.iter()).filter(|(x, y)| x != y).count() + a.len().abs_diff(b.len());
                        println!("NONDETERMINISM property={} {} of {} runs differ", prop, diff, a.len());
                        for (x, y) in a.iter().zip(b.iter()).filter(|(x, y)| x != y).take(5) {
                            println!("  run {}: {:016x}/{:016x} vs {:016x}/{:016x}", x.0, x.1, x.2, y.1, y.2);
                        }
                        bad += 1;
                    }
                }
                println!("determinism: {} runs x2 compared, {} properties diverged", total, bad);
                if bad > 0 {
                    2
                } else {
                    0
                }
            }
            Some("channel") => match crate::selftest::channel_selftest(20_000, base_seed()) {
                Ok(n) => {
                    println!("channel stub fidelity: {} operations on 20000 random sequences agree with crossbeam-channel; tick semantics agree", n);
                    0
                }
                Err(e) => {
                    println!("STUB-MISMATCH: {}", e);
                    2
                }
            },
            _ => {
                eprintln!("usage: dst selftest determinism [n] | dst selftest channel");
                2
            }
        },
        Some("one") => {
            // dst one <prop> <run-index> [--dump] [--inproc]
            let prop = args.get(1).cloned().unwrap_or_default();
            let i: u64 = args.get(2).and_then(|s| s.parse().ok()).unwrap_or(0);
            let seed = run_seed(base_seed(), &prop, i);
            let plan = crate::gen::gen_plan(&prop, seed, i);
            let dump = args.iter().any(|a| a == "--dump");
            if args.iter().any(|a| a == "--plan") {
                println!("{}", serde_json::to_string_pretty(&plan_summary(&plan)).unwrap());
            }
            let props: Vec<String> = ALL_PROPS.iter().map(|s| s.to_string()).collect();
            let s = if args.iter().any(|a| a == "--inproc") {
                execute(&plan, None, false, &props, dump)
            } else {
                match run_forked(&plan, None, false, &props, dump, crate::runner::child_timeout_ms()) {
                    ChildResult::Ok(s) => s,
                    ChildResult::Crashed(m) => {
                        eprintln!("harness error: {}", m);
                        return 2;
                    }
                }
            };
            if let Some(d) = &s.dump {
                println!("{}", d);
            }
            println!("end={} steps={} switches={} virt={:.3}s events={} log_hash={:016x} sig={:016x}", s.end, s.steps, s.switches, s.virt_ns as f64 / 1e9, s.n_events, s.log_hash, s.sched_sig);
            println!("tasks={:?}", s.tasks);
            println!("probes={:?}", s.probes);
            for v in &s.violations {
                println!("VIOL {} {} seq={} [{}] {}", v.prop, v.rule, v.seq, v.fingerprint, v.detail);
            }
            0
        }
        _ => {
            eprintln!("usage: dst check <Cxx> [--tier quick|thorough] | dst replay <file> [--dump] | dst one <Cxx> <i> [--dump] [--plan] [--inproc]");
            2
        }
    }
}

fn cmd_replay(path: &str, dump: bool, fresh: bool) -> i32 {
    let Ok(s) = std::fs::read_to_string(path) else {
        eprintln!("cannot read {}", path);
        return 2;
    };
    let rf: ReplayFile = match serde_json::from_str(&s) {
        Ok(r) => r,
        Err(e) => {
            eprintln!("bad replay file: {}", e);
            return 2;
        }
    };
    let props: Vec<String> = vec![rf.property.clone()];
    match run_forked(&rf.plan, if fresh { None } else { Some(rf.choices.clone()) }, false, &props, dump, crate::runner::child_timeout_ms()) {
        ChildResult::Crashed(m) => {
            eprintln!("harness error: {}", m);
            2
        }
        ChildResult::Ok(sum) => {
            if let Some(d) = &sum.dump {
                println!("{}", d);
            }
            println!("run ended: {} (steps={}, tasks={:?})", sum.end, sum.steps, sum.tasks);
            let hit = sum.violations.iter().find(|v| v.prop == rf.property && v.rule == rf.rule && v.fingerprint == rf.fingerprint);
            match hit {
                Some(v) => {
                    println!("reproduced: property={} rule={} [{}]", v.prop, v.rule, v.fingerprint);
                    println!("  {}", v.detail);
                    println!("  log_hash={:016x} expected={:016x} {}", sum.log_hash, rf.expect_log_hash, if sum.log_hash == rf.expect_log_hash { "(identical execution)" } else { "(same violation, different log: the code under test changed)" });
                    1
                }
                None => {
                    println!("not reproduced: property={} rule={} (run ended: {})", rf.property, rf.rule, sum.end);
                    0
                }
            }
        }
    }
}

fn cmd_check(prop: &str, tier: &str) -> i32 {
    let t0 = std::time::Instant::now();
    crate::gen::THOROUGH.store(tier == "thorough", std::sync::atomic::Ordering::SeqCst);
    let seed = base_seed();
    let n = tier_runs(prop, tier);
    let workers = std::env::var("DST_WORKERS").ok().and_then(|s| s.parse().ok()).unwrap_or(16usize);
    let cap = if tier == "thorough" { 900 } else { 150 };
    let props: Vec<String> = vec![prop.to_string()];
    let agg = batch(prop, seed, n, workers, cap, &props);
    let known = load_known();
    let mut exit = 0;
    if !agg.crashed.is_empty() {
        for c in &agg.crashed {
            eprintln!("HARNESS-ERROR: {}", c);
        }
        exit = 2;
    }
    // group violations by (rule, fingerprint); earliest run index first
    let mut groups: BTreeMap<(String, String), Vec<(u64, u64, Violation)>> = BTreeMap::new();
    for (i, s, v) in &agg.violations {
        groups.entry((v.rule.clone(), v.fingerprint.clone())).or_default().push((*i, *s, v.clone()));
    }
    let mut new_violations = 0;
    let mut known_hits = 0;
    let mut reported: Vec<serde_json::Value> = Vec::new();
    let replay_dir = verif_dir().join("replays");
    let _ = std::fs::create_dir_all(&replay_dir);
    for ((rule, fp), list) in &groups {
        let kf = known.iter().find(|k| k.fixed.is_none() && k.property == prop && &k.rule == rule && &k.fingerprint == fp);
        if let Some(k) = kf {
            println!("KNOWN-FINDING: property={} {} [{}; {} of {} runs]", prop, k.what, rule, list.len(), agg.runs);
            known_hits += 1;
            reported.push(serde_json::json!({"rule": rule, "fingerprint": fp, "runs": list.len(), "known": true}));
            continue;
        }
        // minimise the earliest instance and confirm it replays in a fresh process
        let (i, s, v) = &list[0];
        let plan: Plan = crate::gen::gen_plan(prop, *s, *i);
        match minimise(&plan, v, &props, 400) {
            Some(rf) => {
                let name = format!("{}-{}-{}.json", prop, rule, s);
                let path = replay_dir.join(name);
                std::fs::write(&path, serde_json::to_string_pretty(&rf).unwrap()).unwrap();
                println!("VIOLATION property={} replay={}", prop, path.display());
                println!("  rule={} [{}] in {} of {} runs; minimised {}", rule, fp, list.len(), agg.runs, rf.minimised);
                println!("  {}", rf.detail);
                new_violations += 1;
                reported.push(serde_json::json!({"rule": rule, "fingerprint": fp, "runs": list.len(), "known": false, "replay": path.display().to_string()}));
            }
            None => {
                eprintln!("HARNESS-ERROR: violation {} {} [{}] (run {}, seed {}) did not reproduce in a fresh process: {}", prop, rule, fp, i, s, v.detail);
                exit = 2;
            }
        }
    }
    let wall = t0.elapsed().as_secs_f64();
    write_evidence(prop, tier, seed, &agg, wall, new_violations, known_hits, &reported);
    println!(
        "{} {}: runs={} distinct_schedules={} distinct_histories={} nontrivial_distinct={} checkpoint_states={} violations={} known={} wall={:.1}s",
        prop,
        tier,
        agg.runs,
        agg.sched_sigs.len(),
        agg.log_hashes.len(),
        agg.nontrivial_sigs.len(),
        agg.state_hashes.len(),
        new_violations,
        known_hits,
        wall
    );
    if new_violations > 0 {
        1
    } else {
        exit
    }
}

fn level_of(prop: &str) -> &'static str {
    match prop {
        "C05" | "C10" | "C11" | "C12" => "fault_enumeration",
        _ => "exploration",
    }
}

#[allow(clippy::too_many_arguments)]
fn write_evidence(prop: &str, tier: &str, seed: u64, agg: &Agg, wall: f64, violations: usize, known: usize, reported: &[serde_json::Value]) {
    let dir = verif_dir().join("evidence");
    let _ = std::fs::create_dir_all(&dir);
    let ev = serde_json::json!({
        "property_id": prop,
        "tier": tier,
        "seed": seed,
        "level": level_of(prop),
        "coverage": {
            "evaluations": agg.runs,
            "distinct_nontrivial": agg.nontrivial_sigs.len(),
            "rule": crate::gen::nontrivial_rule(prop),
            "samples": agg.samples,
            "distinct_schedule_signatures": agg.sched_sigs.len(),
            "distinct_event_histories": agg.log_hashes.len(),
            "distinct_checkpoint_states": agg.state_hashes.len(),
            "scheduling_points": agg.steps,
            "context_switches": agg.switches,
            "simulated_seconds": agg.virt_ns as f64 / 1e9,
            "runs_per_hour": if wall > 0.0 { (agg.runs as f64 / wall * 3600.0) as u64 } else { 0 },
            "run_endings": agg.ends,
            "inconclusive_runs": agg.ends.get("step_limit").copied().unwrap_or(0) + agg.ends.get("time_limit").copied().unwrap_or(0),
            "fault_and_event_counts": agg.faults,
            "runs_in_which_each_fired": agg.fault_runs,
            "probes": agg.probes,
            "runs_in_which_each_probe_hit": agg.probe_runs,
            "scenario_families": agg.families,
            "flavour_split": agg.flavors,
            "violations_of_other_properties_seen_in_these_runs": agg.other_prop_violations,
            "reported": reported,
            "known_findings_matched": known,
            "real_components": ["stretto cache, store, ttl, policy, ring, sketch, bbloom, metrics, histogram, utils (working tree of /repo)", "parking_lot locks", "wg wait groups", "async flavour: async-channel, futures::select!, event-listener, wg::AsyncWaitGroup"],
            "stubbed_components": ["OS scheduler (baton scheduler, one task at a time)", "std::thread::spawn / executor spawner", "wall clock (SystemTime)", "crossbeam tick / async-io Timer", "sync flavour: crossbeam-channel and select! (simulator channel)"],
        },
        "assumptions": [
            "tasks interleave at lock, channel, wait-group, clock, coordination-flag, metrics-counter and capacity-cell operations under sequential consistency; races inside unsafe code and weak-memory effects are out of scope",
            "sync flavour runs on a re-implementation of the crossbeam-channel contract (bounded FIFO, unbounded, rendezvous, tick, select!)",
            "parking_lot RwLock is modelled as writer-preferring (a queued writer blocks new readers); other fairness properties of the primitives are not modelled",
            "sampling, not enumeration: a clean batch is evidence, not proof"
        ],
        "wall_s": wall,
        "violations": violations,
    });
    std::fs::write(dir.join(format!("{}.json", prop)), serde_json::to_string_pretty(&ev).unwrap()).unwrap();
}
