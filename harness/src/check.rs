//! Command line: `dst check <id> [--tier quick|thorough]`, `dst replay <file>`, `dst one ...`.

use crate::hist::Violation;
use crate::plan::Plan;
use crate::runner::*;
use serde::{Deserialize, Serialize};
use std::collections::BTreeMap;

pub const ALL_PROPS: &[&str] = &["C01", "C02", "C03", "C04", "C05", "C06", "C07", "C08", "C09", "C10", "C11", "C12", "C13", "C15", "C16", "C17", "C18", "C19", "C20"];

fn verif_dir() -> std::path::PathBuf {
    std::env::var("DST_VERIF_DIR").map(std::path::PathBuf::from).unwrap_or_else(|_| std::path::PathBuf::from("/verif"))
}

fn base_seed() -> u64 {
    std::env::var("VERIF_SEED").ok().and_then(|s| s.parse::<u64>().ok()).unwrap_or(20260925)
}

#[derive(Serialize, Deserialize, Clone, Debug)]
pub struct KnownFinding {
    #[serde(default)]
    pub property: String,
    #[serde(default)]
    pub rule: String,
    #[serde(default)]
    pub fingerprint: String,
    #[serde(default)]
    pub what: String,
    /// "fixed: property=<id> <commit> <what failed>" entries suppress nothing
    #[serde(default)]
    pub fixed: Option<String>,
}

fn load_known() -> Vec<KnownFinding> {
    let p = verif_dir().join("known_findings.jsonl");
    let Ok(s) = std::fs::read_to_string(p) else { return vec![] };
    s.lines().filter(|l| !l.trim().is_empty() && !l.trim_start().starts_with('#')).filter_map(|l| serde_json::from_str(l).ok()).collect()
}

pub fn tier_runs(prop: &str, tier: &str) -> u64 {
    let quick: u64 = match prop {
        "C19" => 20_000,
        "C03" | "C04" | "C05" | "C09" => 30_000,
        _ => 40_000,
    };
    let q = std::env::var("DST_RUNS").ok().and_then(|s| s.parse().ok()).unwrap_or(quick);
    if tier == "thorough" {
        std::env::var("DST_RUNS").ok().and_then(|s| s.parse().ok()).unwrap_or(quick * 10)
    } else {
        q
    }
}

pub fn cli(args: &[String]) -> i32 {
    match args.first().map(|s| s.as_str()) {
        Some("check") => {
            let prop = args.get(1).cloned().unwrap_or_default();
            let mut tier = std::env::var("VERIF_TIER").unwrap_or_else(|_| "quick".into());
            let mut i = 2;
            while i < args.len() {
                if args[i] == "--tier" {
                    tier = args.get(i + 1).cloned().unwrap_or(tier);
                    i += 1;
                }
                i += 1;
            }
            if !ALL_PROPS.contains(&prop.as_str()) {
                eprintln!("unknown property {}", prop);
                return 2;
            }
            cmd_check(&prop, &tier)
        }
        Some("seams") => {
            let cur = seam_lines(&repo_dir());
            if args.iter().any(|a| a == "--write") {
                std::fs::write("seams.json", serde_json::to_string_pretty(&cur).unwrap()).unwrap();
                println!("seams.json written ({} seam halves)", cur.len());
                0
            } else {
                match seam_drift() {
                    Ok(()) => {
                        println!("{} shipped seam halves, all as recorded", cur.len());
                        0
                    }
                    Err(d) => {
                        println!("SEAM-DRIFT {}", d);
                        2
                    }
                }
            }
        }
        Some("replay") => {
            let Some(path) = args.get(1) else {
                eprintln!("usage: dst replay <file>");
                return 2;
            };
            cmd_replay(path, args.iter().any(|a| a == "--dump"), args.iter().any(|a| a == "--fresh"))
        }
        Some("selftest") => match args.get(1).map(|s| s.as_str()) {
            Some("determinism") => {
                // every run twice, in separate processes, at two worker counts; logs must agree
                let n: u64 = args.get(2).and_then(|s| s.parse().ok()).unwrap_or(300);
                std::env::set_var("DST_PER_RUN", "1");
                let mut bad = 0;
                let mut total = 0;
                for prop in ALL_PROPS {
                    let props: Vec<String> = vec![prop.to_string()];
                    let ba = batch(prop, base_seed(), n, 16, 600, &props);
                    let bb = batch(prop, base_seed(), n, 3, 600, &props);
                    for c in ba.crashed.iter().chain(bb.crashed.iter()) {
                        // a child that timed out or died is a harness problem, not nondeterminism
                        println!("CHILD-PROBLEM property={} {}", prop, c);
                    }
                    let (mut a, mut b) = (ba.per_run, bb.per_run);
                    a.sort();
                    b.sort();
                    total += a.len();
                    if a != b {
                        let diff = a.iter().zip(b.iter()).filter(|(x, y)| x != y).count() + a.len().abs_diff(b.len());
                        println!("NONDETERMINISM property={} {} of {} runs differ", prop, diff, a.len());
                        for (x, y) in a.iter().zip(b.iter()).filter(|(x, y)| x != y).take(5) {
                            println!("  run {}: {:016x}/{:016x} vs {:016x}/{:016x}", x.0, x.1, x.2, y.1, y.2);
                        }
                        bad += 1;
                    }
                }
                println!("determinism: {} runs x2 compared, {} properties diverged", total, bad);
                if bad > 0 {
                    2
                } else {
                    0
                }
            }
            Some("channel") => match crate::selftest::channel_selftest(20_000, base_seed()) {
                Ok(n) => {
                    println!("channel stub fidelity: {} operations on 20000 random sequences agree with crossbeam-channel; tick semantics agree", n);
                    0
                }
                Err(e) => {
                    println!("STUB-MISMATCH: {}", e);
                    2
                }
            },
            _ => {
                eprintln!("usage: dst selftest determinism [n] | dst selftest channel");
                2
            }
        },
        Some("one") => {
            // dst one <prop> <run-index> [--dump] [--inproc]
            let prop = args.get(1).cloned().unwrap_or_default();
            let i: u64 = args.get(2).and_then(|s| s.parse().ok()).unwrap_or(0);
            let seed = run_seed(base_seed(), &prop, i);
            let plan = crate::gen::gen_plan(&prop, seed, i);
            let dump = args.iter().any(|a| a == "--dump");
            if args.iter().any(|a| a == "--plan") {
                println!("{}", serde_json::to_string_pretty(&plan_summary(&plan)).unwrap());
            }
            let props: Vec<String> = ALL_PROPS.iter().map(|s| s.to_string()).collect();
            let s = if args.iter().any(|a| a == "--inproc") {
                execute(&plan, None, false, &props, dump)
            } else {
                match run_forked(&plan, None, false, &props, dump, crate::runner::child_timeout_ms()) {
                    ChildResult::Ok(s) => s,
                    ChildResult::Crashed(m) => {
                        eprintln!("harness error: {}", m);
                        return 2;
                    }
                }
            };
            if let Some(d) = &s.dump {
                println!("{}", d);
            }
            println!("end={} steps={} switches={} virt={:.3}s events={} log_hash={:016x} sig={:016x}", s.end, s.steps, s.switches, s.virt_ns as f64 / 1e9, s.n_events, s.log_hash, s.sched_sig);
            println!("tasks={:?}", s.tasks);
            println!("probes={:?}", s.probes);
            for v in &s.violations {
                println!("VIOL {} {} seq={} [{}] {}", v.prop, v.rule, v.seq, v.fingerprint, v.detail);
            }
            0
        }
        _ => {
            eprintln!("usage: dst check <Cxx> [--tier quick|thorough] | dst replay <file> [--dump] | dst one <Cxx> <i> [--dump] [--plan] [--inproc]");
            2
        }
    }
}

fn cmd_replay(path: &str, dump: bool, fresh: bool) -> i32 {
    let Ok(s) = std::fs::read_to_string(path) else {
        eprintln!("cannot read {}", path);
        return 2;
    };
    if let Ok(v) = serde_json::from_str::<serde_json::Value>(&s) {
        if v["kind"].as_str() == Some("miri") {
            return cmd_replay_miri(&v, dump);
        }
        if let Some(label) = v["build"].as_str().filter(|l| Some(*l) != build_label()) {
            // found by another build of the harness (other feature set of the library): replay it there
            let bin = other_build_bin(label);
            let mut c = std::process::Command::new(&bin);
            c.arg("replay").arg(path);
            if dump {
                c.arg("--dump");
            }
            if fresh {
                c.arg("--fresh");
            }
            return match c.status() {
                Ok(st) => st.code().unwrap_or(2),
                Err(e) => {
                    eprintln!("HARNESS-ERROR: cannot run {}: {} (./dst builds it)", bin.display(), e);
                    2
                }
            };
        }
    }
    let rf: ReplayFile = match serde_json::from_str(&s) {
        Ok(r) => r,
        Err(e) => {
            eprintln!("bad replay file: {}", e);
            return 2;
        }
    };
    let props: Vec<String> = vec![rf.property.clone()];
    match run_forked(&rf.plan, if fresh { None } else { Some(rf.choices.clone()) }, false, &props, dump, crate::runner::child_timeout_ms()) {
        ChildResult::Crashed(m) => {
            eprintln!("harness error: {}", m);
            2
        }
        ChildResult::Ok(sum) => {
            if let Some(d) = &sum.dump {
                println!("{}", d);
            }
            println!("run ended: {} (steps={}, tasks={:?})", sum.end, sum.steps, sum.tasks);
            let hit = sum.violations.iter().find(|v| v.prop == rf.property && v.rule == rf.rule && v.fingerprint == rf.fingerprint);
            match hit {
                Some(v) => {
                    println!("reproduced: property={} rule={} [{}]", v.prop, v.rule, v.fingerprint);
                    println!("  {}", v.detail);
                    println!("  log_hash={:016x} expected={:016x} {}", sum.log_hash, rf.expect_log_hash, if sum.log_hash == rf.expect_log_hash { "(identical execution)" } else { "(same violation, different log: the code under test changed)" });
                    1
                }
                None => {
                    println!("not reproduced: property={} rule={} (run ended: {})", rf.property, rf.rule, sum.end);
                    0
                }
            }
        }
    }
}

/// The shipped halves of the simulator's seams: every item under
/// `#[cfg(not(transparencies_stretto_verif))]` in the library.  The simulator stage never compiles
/// them - it runs the other half - so a change there is invisible to it.
fn seam_lines(repo: &std::path::Path) -> Vec<String> {
    fn walk(dir: &std::path::Path, base: &std::path::Path, out: &mut Vec<String>) {
        let Ok(rd) = std::fs::read_dir(dir) else { return };
        let mut es: Vec<_> = rd.flatten().map(|e| e.path()).collect();
        es.sort();
        for p in es {
            if p.is_dir() {
                walk(&p, base, out);
            } else if p.extension().map_or(false, |x| x == "rs") {
                let Ok(txt) = std::fs::read_to_string(&p) else { continue };
                let lines: Vec<&str> = txt.lines().collect();
                for (i, l) in lines.iter().enumerate() {
                    if l.trim() == "#[cfg(not(transparencies_stretto_verif))]" {
                        let next = lines.get(i + 1).map(|x| x.trim()).unwrap_or("");
                        out.push(format!("{}: {}", p.strip_prefix(base).unwrap_or(&p).display(), next));
                    }
                }
            }
        }
    }
    let mut out = Vec::new();
    walk(&repo.join("src"), repo, &mut out);
    out
}

fn repo_dir() -> std::path::PathBuf {
    // the checkout the shadow manifest points at
    let txt = std::fs::read_to_string("shadow/Cargo.toml").unwrap_or_default();
    for l in txt.lines() {
        if let Some(rest) = l.trim().strip_prefix("path = \"") {
            if let Some(p) = rest.strip_suffix("/src/lib.rs\"") {
                return std::path::PathBuf::from(p);
            }
        }
    }
    std::path::PathBuf::from("/repo")
}

/// Err(description) if the shipped half of a seam differs from the recorded one.
fn seam_drift() -> Result<(), String> {
    let Ok(rec) = std::fs::read_to_string("seams.json") else { return Ok(()) };
    let Ok(rec) = serde_json::from_str::<Vec<String>>(&rec) else { return Ok(()) };
    let cur = seam_lines(&repo_dir());
    if cur == rec {
        return Ok(());
    }
    let changed: Vec<&String> = cur.iter().filter(|l| !rec.contains(l)).chain(rec.iter().filter(|l| !cur.contains(l))).collect();
    Err(format!("{:?}", changed))
}

fn cmd_check(prop: &str, tier: &str) -> i32 {
    if let Err(d) = seam_drift() {
        eprintln!("HARNESS-ERROR: the shipped half of a simulator seam has changed ({}): the simulator stage compiles the other half and no longer runs the code that ships there, so this check cannot decide (regenerate seams.json with `./dst seams --write` once the hooks have been brought in line)", d);
        return 2;
    }
    let t0 = std::time::Instant::now();
    crate::gen::THOROUGH.store(tier == "thorough", std::sync::atomic::Ordering::SeqCst);
    let seed = base_seed();
    let sub = build_label().is_some();
    let n = tier_runs(prop, tier);
    let workers = std::env::var("DST_WORKERS").ok().and_then(|s| s.parse().ok()).unwrap_or(16usize);
    let cap = match (tier == "thorough", sub) {
        (true, false) => 900,
        (true, true) => 300,
        (false, false) => 150,
        (false, true) => 60,
    };
    let props: Vec<String> = vec![prop.to_string()];
    let agg = batch(prop, seed, n, workers, cap, &props);
    let known = load_known();
    let mut exit = 0;
    if !agg.crashed.is_empty() {
        for c in &agg.crashed {
            eprintln!("HARNESS-ERROR: {}", c);
        }
        exit = 2;
    }
    // group violations by (rule, fingerprint); earliest run index first
    let mut groups: BTreeMap<(String, String), Vec<(u64, u64, Violation)>> = BTreeMap::new();
    for (i, s, v) in &agg.violations {
        groups.entry((v.rule.clone(), v.fingerprint.clone())).or_default().push((*i, *s, v.clone()));
    }
    let mut new_violations = 0;
    let mut known_hits = 0;
    let mut reported: Vec<serde_json::Value> = Vec::new();
    let replay_dir = verif_dir().join("replays");
    let _ = std::fs::create_dir_all(&replay_dir);
    for ((rule, fp), list) in &groups {
        let kf = known.iter().find(|k| k.fixed.is_none() && k.property == prop && &k.rule == rule && &k.fingerprint == fp);
        if let Some(k) = kf {
            println!("KNOWN-FINDING: property={} {} [{}; {} of {} runs]", prop, k.what, rule, list.len(), agg.runs);
            known_hits += 1;
            reported.push(serde_json::json!({"rule": rule, "fingerprint": fp, "runs": list.len(), "known": true}));
            continue;
        }
        // minimise the earliest instance and confirm it replays in a fresh process
        let (i, s, v) = &list[0];
        let plan: Plan = crate::gen::gen_plan(prop, *s, *i);
        match minimise(&plan, v, &props, 400) {
            Some(rf) => {
                let name = format!("{}-{}-{}{}.json", prop, rule, s, build_label().map(|l| format!("-{}", l)).unwrap_or_default());
                let path = replay_dir.join(name);
                std::fs::write(&path, serde_json::to_string_pretty(&rf).unwrap()).unwrap();
                println!("VIOLATION property={} replay={}", prop, path.display());
                println!("  rule={} [{}] in {} of {} runs; minimised {}", rule, fp, list.len(), agg.runs, rf.minimised);
                println!("  {}", rf.detail);
                new_violations += 1;
                reported.push(serde_json::json!({"rule": rule, "fingerprint": fp, "runs": list.len(), "known": false, "replay": path.display().to_string()}));
            }
            None => {
                eprintln!("HARNESS-ERROR: violation {} {} [{}] (run {}, seed {}) did not reproduce in a fresh process: {}", prop, rule, fp, i, s, v.detail);
                exit = 2;
            }
        }
    }
    if sub {
        // this is the third stage, run by the main binary: report and leave the evidence to it
        let faults: BTreeMap<&String, &u64> = agg.faults.iter().filter(|(_, v)| **v > 0).collect();
        println!(
            "STAGE-SUMMARY {}",
            serde_json::json!({"runs": agg.runs, "distinct_event_histories": agg.log_hashes.len(), "distinct_nontrivial": agg.nontrivial_sigs.len(), "checkpoint_states": agg.state_hashes.len(), "violations": new_violations, "known": known_hits, "scenario_families": agg.families, "fault_and_event_counts": faults, "wall_s": t0.elapsed().as_secs_f64()})
        );
        return if new_violations > 0 { 1 } else { exit };
    }
    let (miri_ev, miri_viol) = miri_stage(prop, tier, seed);
    new_violations += miri_viol;
    let (df_ev, df_viol, df_exit) = other_build_stage("default-features", prop, tier, n);
    let (ao_ev, ao_viol, ao_exit) = other_build_stage("async-only", prop, tier, n);
    new_violations += df_viol + ao_viol;
    if df_exit == 2 || ao_exit == 2 {
        exit = 2;
    }
    let wall = t0.elapsed().as_secs_f64();
    let miri_ev = serde_json::json!({"miri": miri_ev, "default_features": df_ev, "async_only": ao_ev});
    write_evidence(prop, tier, seed, &agg, wall, new_violations, known_hits, &reported, &miri_ev);
    println!(
        "{} {}: runs={} distinct_schedules={} distinct_histories={} nontrivial_distinct={} checkpoint_states={} violations={} known={} wall={:.1}s",
        prop,
        tier,
        agg.runs,
        agg.sched_sigs.len(),
        agg.log_hashes.len(),
        agg.nontrivial_sigs.len(),
        agg.state_hashes.len(),
        new_violations,
        known_hits,
        wall
    );
    if new_violations > 0 {
        1
    } else {
        exit
    }
}

/// Which build of the harness this is: None = both flavours (library features sync + async, the
/// main stage), otherwise the label carried by replay files of that build.
pub fn build_label() -> Option<&'static str> {
    match (cfg!(feature = "sync_flavour"), cfg!(feature = "async_flavour")) {
        (true, true) => None,
        (true, false) => Some("default-features"),
        _ => Some("async-only"),
    }
}

fn other_build_bin(label: &str) -> std::path::PathBuf {
    let dir = if label == "async-only" { "target-async" } else { "target-sync" };
    std::env::current_exe().ok().and_then(|p| p.parent().and_then(|d| d.parent()).and_then(|d| d.parent()).map(|d| d.join(dir).join("release/dst"))).unwrap_or_else(|| verif_dir().join(dir).join("release/dst"))
}

#[allow(dead_code)]
fn default_features_bin() -> std::path::PathBuf {
    std::env::current_exe().ok().and_then(|p| p.parent().and_then(|d| d.parent()).and_then(|d| d.parent()).map(|d| d.join("target-sync/release/dst"))).unwrap_or_else(|| verif_dir().join("target-sync/release/dst"))
}

/// Third stage: the same families, schedules and oracles on the harness built against the
/// library's DEFAULT feature set (`sync` only - what `stretto = "0.8"` gives a user), a tenth of
/// the runs.  The main stage compiles the crate with `sync` + `async`; code under
/// `#[cfg(feature = ...)]` can differ between the two builds.
fn other_build_stage(label: &str, prop: &str, tier: &str, n: u64) -> (serde_json::Value, usize, i32) {
    if prop == "C19" {
        return (serde_json::json!({"status": "not applicable: C19 compares the two flavours, which needs both features"}), 0, 0);
    }
    if std::env::var("DST_NO_DEFAULT_FEATURES_STAGE").is_ok() {
        return (serde_json::json!({"status": "skipped (DST_NO_DEFAULT_FEATURES_STAGE)"}), 0, 0);
    }
    let bin = other_build_bin(label);
    let runs = std::env::var("DST_RUNS").ok().and_then(|s| s.parse::<u64>().ok()).unwrap_or(n) / 10;
    let runs = runs.max(500);
    let out = std::process::Command::new(&bin)
        .args(["check", prop, "--tier", tier])
        .env("DST_RUNS", runs.to_string())
        .env("DST_NO_MIRI", "1")
        .output();
    let out = match out {
        Ok(o) => o,
        Err(e) => {
            eprintln!("HARNESS-ERROR: cannot run the {} build of the harness ({}): {} - ./dst builds it", label, bin.display(), e);
            return (serde_json::json!({"status": "harness error: binary missing"}), 0, 2);
        }
    };
    let text = String::from_utf8_lossy(&out.stdout).to_string();
    let mut summary = serde_json::json!({});
    let mut viol = 0usize;
    let mut pass = false;
    for l in text.lines() {
        if let Some(j) = l.strip_prefix("STAGE-SUMMARY ") {
            summary = serde_json::from_str(j).unwrap_or(serde_json::json!({}));
            continue;
        }
        if l.starts_with("VIOLATION ") {
            viol += 1;
            pass = true;
            println!("{}", l);
        } else if l.starts_with("KNOWN-FINDING") {
            pass = false;
            println!("{}", l);
        } else if pass && l.starts_with("  ") {
            println!("{} ({} build)", l, label);
        } else {
            pass = false;
        }
    }
    let err = String::from_utf8_lossy(&out.stderr);
    for l in err.lines().filter(|l| l.starts_with("HARNESS-ERROR")) {
        eprintln!("{} ({} build)", l, label);
    }
    let code = out.status.code().unwrap_or(2);
    let mut ev = serde_json::json!({
        "engine": if label == "async-only" { "the same simulator, families and oracles; harness and shadow library built with --no-default-features --features async_flavour (library feature set: async), AsyncCache only" } else { "the same simulator, families and oracles; harness and shadow library built with --no-default-features --features sync_flavour (library feature set: sync, the crate's default), Cache only" },
        "status": if code == 0 { "held" } else if code == 1 { "violation" } else { "harness error" },
    });
    if let (Some(a), Some(b)) = (ev.as_object_mut(), summary.as_object()) {
        for (k, v) in b {
            a.insert(k.clone(), v.clone());
        }
    }
    (ev, viol, if code == 2 { 2 } else { 0 })
}

/// Second stage for a few properties: tiny multi-threaded scenarios of the UNHOOKED library under
/// Miri's seeded scheduler (instruction-level preemption, data-race detection, UB checks) - the
/// granularity the baton simulator cannot reach.  Returns (evidence, violation lines printed).
fn miri_scenario(prop: &str) -> Option<&'static str> {
    match prop {
        "C01" => Some("capacity_race"),
        "C02" => Some("value_refs"),
        "C06" => Some("concurrent_removes"),
        "C08" => Some("value_lifecycle"),
        "C09" => Some("vetoed_update"),
        "C17" => Some("metrics_many_threads"),
        "C18" => Some("first_use_hashing"),
        _ => None,
    }
}

fn miri_cmd(scenario: &str, seeds: &str) -> std::process::Command {
    let dir = std::env::current_dir().unwrap_or_else(|_| std::path::PathBuf::from("/verif")).join("miri-harness");
    let mut c = std::process::Command::new("cargo");
    c.current_dir(dir)
        .args(["+nightly", "miri", "run", "--offline", "--", scenario])
        .env("CARGO_NET_OFFLINE", "true")
        // the simulator's cfg flag comes from /verif/.cargo/config.toml; an explicit RUSTFLAGS wins
        .env("RUSTFLAGS", "--cap-lints=warn")
        .env("MIRIFLAGS", format!("-Zmiri-disable-isolation -Zmiri-ignore-leaks {}", seeds));
    c
}

fn miri_stage(prop: &str, tier: &str, seed: u64) -> (serde_json::Value, usize) {
    let Some(scenario) = miri_scenario(prop) else { return (serde_json::Value::Null, 0) };
    if scenario == "concurrent_removes" && tier != "thorough" {
        // len() walks 256 shard locks: minutes under Miri - thorough tier only
        return (serde_json::json!({"scenario": scenario, "status": "thorough tier only"}), 0);
    }
    if std::env::var("DST_NO_MIRI").is_ok() {
        return (serde_json::json!({"scenario": scenario, "status": "skipped (DST_NO_MIRI)"}), 0);
    }
    let n: u64 = std::env::var("DST_MIRI_SEEDS").ok().and_then(|s| s.parse().ok()).unwrap_or(match (tier, scenario) {
        ("thorough", "metrics_many_threads") => 96, // 27 threads: ~15 s per seed
        ("thorough", "concurrent_removes") => 64,
        ("thorough", "vetoed_update") => 64,
        ("thorough", _) => 256,
        (_, "metrics_many_threads") => 16,
        (_, "value_refs") => 64,
        (_, "vetoed_update") => 8, // one client thread, the workers only apply its items
        _ => 32,
    });
    let from = (seed % 1000) * 1000;
    let t0 = std::time::Instant::now();
    let out = miri_cmd(scenario, &format!("-Zmiri-many-seeds={}..{}", from, from + n)).output();
    let wall = t0.elapsed().as_secs_f64();
    let Ok(out) = out else {
        eprintln!("miri stage unavailable (cargo +nightly miri could not be started); only the simulator stage decides");
        return (serde_json::json!({"scenario": scenario, "status": "unavailable"}), 0);
    };
    let text = format!("{}{}", String::from_utf8_lossy(&out.stdout), String::from_utf8_lossy(&out.stderr));
    let tried = text.matches("Trying seed:").count();
    if tried == 0 {
        eprintln!("miri stage unavailable (no seed was tried; see .miri.log); only the simulator stage decides");
        let _ = std::fs::write(".miri.log", &text);
        return (serde_json::json!({"scenario": scenario, "status": "unavailable"}), 0);
    }
    let oks = text.matches(&format!("ok {}", scenario)).count();
    if out.status.success() {
        return (serde_json::json!({"scenario": scenario, "status": "held", "scheduler_seeds": format!("{}..{}", from, from + n), "seeds_run": tried, "seeds_ok": oks, "wall_s": wall, "engine": "cargo +nightly miri run (-Zmiri-many-seeds, preemption at basic-block granularity, data-race detector, UB checks), real crossbeam-channel / parking_lot / OS-thread code, host clock"}), 0);
    }
    // a failing seed: what failed?
    let failing: Option<u64> = text.lines().find_map(|l| l.trim().strip_prefix("FAILING SEED:").and_then(|x| x.trim().parse().ok()));
    let (rule, detail) = if let Some(l) = text.lines().find(|l| l.starts_with("MIRI-VIOLATION")) {
        let rule = l.split_whitespace().find_map(|w| w.strip_prefix("rule=")).unwrap_or("M-expectation").to_string();
        (rule, l.to_string())
    } else if let Some(l) = text.lines().find(|l| l.contains("Undefined Behavior") || l.contains("Data race")) {
        ("M-undefined-behaviour-or-data-race".to_string(), l.trim().to_string())
    } else if let Some(l) = text.lines().find(|l| l.contains("panicked at")) {
        ("M-panic".to_string(), l.trim().to_string())
    } else if text.contains("deadlock") {
        ("M-deadlock".to_string(), "Miri reports a deadlock".to_string())
    } else {
        ("M-failed".to_string(), text.lines().rev().find(|l| l.starts_with("error")).unwrap_or("miri run failed").to_string())
    };
    let replay_dir = verif_dir().join("replays");
    let _ = std::fs::create_dir_all(&replay_dir);
    let path = replay_dir.join(format!("{}-{}-miri-{}.json", prop, rule, failing.unwrap_or(0)));
    let rf = serde_json::json!({"kind": "miri", "property": prop, "rule": rule, "scenario": scenario, "miri_seed": failing, "detail": detail});
    std::fs::write(&path, serde_json::to_string_pretty(&rf).unwrap()).unwrap();
    println!("VIOLATION property={} replay={}", prop, path.display());
    println!("  rule={} [miri scenario {}] failing scheduler seed {:?} of {}..{}", rule, scenario, failing, from, from + n);
    println!("  {}", detail);
    (serde_json::json!({"scenario": scenario, "status": "violation", "rule": rule, "failing_seed": failing, "seeds_run": tried, "wall_s": wall, "replay": path.display().to_string()}), 1)
}

fn cmd_replay_miri(v: &serde_json::Value, dump: bool) -> i32 {
    let scenario = v["scenario"].as_str().unwrap_or("");
    let Some(seed) = v["miri_seed"].as_u64() else {
        eprintln!("replay file has no miri seed");
        return 2;
    };
    let Ok(out) = miri_cmd(scenario, &format!("-Zmiri-seed={}", seed)).output() else {
        eprintln!("harness error: cargo +nightly miri could not be started");
        return 2;
    };
    let text = format!("{}{}", String::from_utf8_lossy(&out.stdout), String::from_utf8_lossy(&out.stderr));
    if dump {
        println!("{}", text);
    }
    if out.status.success() {
        println!("not reproduced: property={} scenario={} seed={}", v["property"].as_str().unwrap_or(""), scenario, seed);
        0
    } else {
        let l = text.lines().find(|l| l.starts_with("MIRI-VIOLATION") || l.contains("Undefined Behavior") || l.contains("Data race") || l.contains("panicked at")).unwrap_or("miri run failed");
        println!("reproduced: property={} rule={} [miri scenario {} seed {}]", v["property"].as_str().unwrap_or(""), v["rule"].as_str().unwrap_or(""), scenario, seed);
        println!("  {}", l.trim());
        1
    }
}

fn level_of(prop: &str) -> &'static str {
    match prop {
        "C05" | "C10" | "C11" | "C12" => "fault_enumeration",
        _ => "exploration",
    }
}

#[allow(clippy::too_many_arguments)]
fn write_evidence(prop: &str, tier: &str, seed: u64, agg: &Agg, wall: f64, violations: usize, known: usize, reported: &[serde_json::Value], miri: &serde_json::Value) {
    let dir = verif_dir().join("evidence");
    let _ = std::fs::create_dir_all(&dir);
    let ev = serde_json::json!({
        "property_id": prop,
        "tier": tier,
        "seed": seed,
        "level": level_of(prop),
        "coverage": {
            "evaluations": agg.runs,
            "distinct_nontrivial": agg.nontrivial_sigs.len(),
            "rule": crate::gen::nontrivial_rule(prop),
            "samples": agg.samples,
            "distinct_schedule_signatures": agg.sched_sigs.len(),
            "distinct_event_histories": agg.log_hashes.len(),
            "distinct_checkpoint_states": agg.state_hashes.len(),
            "scheduling_points": agg.steps,
            "context_switches": agg.switches,
            "simulated_seconds": agg.virt_ns as f64 / 1e9,
            "runs_per_hour": if wall > 0.0 { (agg.runs as f64 / wall * 3600.0) as u64 } else { 0 },
            "run_endings": agg.ends,
            "inconclusive_runs": agg.ends.get("step_limit").copied().unwrap_or(0) + agg.ends.get("time_limit").copied().unwrap_or(0),
            "fault_and_event_counts": agg.faults,
            "runs_in_which_each_fired": agg.fault_runs,
            "probes": agg.probes,
            "runs_in_which_each_probe_hit": agg.probe_runs,
            "scenario_families": agg.families,
            "flavour_split": agg.flavors,
            "violations_of_other_properties_seen_in_these_runs": agg.other_prop_violations,
            "reported": reported,
            "second_stage_miri": miri["miri"],
            "third_stage_default_feature_set": miri["default_features"],
            "third_stage_async_only_feature_set": miri["async_only"],
            "known_findings_matched": known,
            "real_components": ["stretto cache, store, ttl, policy, ring, sketch, bbloom, metrics, histogram, utils (working tree of /repo)", "parking_lot locks", "wg wait groups", "async flavour: async-channel, futures::select!, event-listener, wg::AsyncWaitGroup"],
            "stubbed_components": ["OS scheduler (baton scheduler, one task at a time)", "std::thread::spawn / executor spawner", "wall clock (SystemTime)", "monotonic clock (std::time::Instant: clock_gettime is defined by the harness binary and reads the virtual clock during a run)", "crossbeam tick / async-io Timer", "sync flavour: crossbeam-channel and select! (simulator channel)"],
        },
        "assumptions": [
            "tasks interleave at lock, channel (simulator channels in the sync flavour, the real async-channel behind pass-through wrappers in the async flavour), wait-group, clock, coordination-flag, metrics-counter and capacity-cell operations under sequential consistency; races inside unsafe code and weak-memory effects are out of scope",
            "sync flavour runs on a re-implementation of the crossbeam-channel contract (bounded FIFO, unbounded, rendezvous, tick, select!)",
            "parking_lot RwLock is modelled as writer-preferring (a queued writer blocks new readers); other fairness properties of the primitives are not modelled",
            "sampling, not enumeration: a clean batch is evidence, not proof"
        ],
        "wall_s": wall,
        "violations": violations,
    });
    std::fs::write(dir.join(format!("{}.json", prop)), serde_json::to_string_pretty(&ev).unwrap()).unwrap();
}
