//! Plans: everything a run does that is not a scheduling decision — configuration, each
//! client's script, planned faults.  A plan plus a choice vector is one exact execution.

use serde::{Deserialize, Serialize};

#[derive(Serialize, Deserialize, Clone, Debug, PartialEq, Eq)]
pub enum Flavor {
    Sync,
    /// every future on its own simulator task (thread-per-task / multi-threaded executor)
    Async,
    /// all futures on one simulator task: a single-threaded cooperative executor
    AsyncLocal,
}

#[derive(Serialize, Deserialize, Clone, Debug, PartialEq, Eq)]
pub enum KeyMode {
    /// index = key, conflict = 0 (what TransparentKeyBuilder does)
    Transparent,
    /// index = key % m, conflict = mix(key) | 1  — forces index collisions
    Collide { m: u64 },
    /// a real key type with the library's own key builder: TransparentKeyBuilder for the
    /// integer types, DefaultKeyBuilder for "string" (inserted as String, looked up as &str)
    Typed { ty: String },
}

#[derive(Serialize, Deserialize, Clone, Debug, PartialEq, Eq)]
pub enum Validator {
    Always,
    /// veto when (prev.id + curr.id) % m == r
    Mod { m: u64, r: u64 },
    /// a validator with state of its own (a version high-water mark, a token bucket, ...):
    /// consultations are answered accept, veto, accept, veto, ... in the order they happen
    Toggle,
}

#[derive(Serialize, Deserialize, Clone, Debug, PartialEq, Eq)]
pub enum CallbackMode {
    /// on_exit, on_evict and on_reject all implemented
    Full,
    /// only on_exit implemented (the trait's defaults forward evict/reject to it)
    ExitOnly,
    /// on_exit and on_evict implemented, on_reject left to the trait's default (which hands the
    /// refused value to on_exit)
    ExitEvict,
}

#[derive(Serialize, Deserialize, Clone, Debug)]
pub struct Cfg {
    pub flavor: Flavor,
    pub num_counters: usize,
    pub max_cost: i64,
    pub buffer_size: usize,
    pub buffer_items: usize,
    pub metrics: bool,
    pub ignore_internal_cost: bool,
    pub cleanup_ms: u64,
    pub hasher_seed: u64,
    pub keys: KeyMode,
    pub validator: Validator,
    /// Coster returns the value's `size` (used when an insert passes cost 0); false = default 0
    pub coster: bool,
    pub callback: CallbackMode,
    /// build through the constructor's DEFAULTS: buffer_size, buffer_items, cleanup interval,
    /// metrics and ignore_internal_cost are not set (the fields above then hold the documented
    /// defaults, which is what the oracles judge against)
    #[serde(default)]
    pub use_defaults: bool,
    /// which constructor and which order of builder setters (see exec::build)
    #[serde(default)]
    pub recipe: u8,
    /// a second, independent cache lives in the same process (and, for the single-task executor,
    /// on the same thread); the cache under test must not notice
    #[serde(default)]
    pub decoy: bool,
    /// the callbacks call back into the cache they belong to (get_ttl of the value's key): a
    /// callback must never run while the library holds a lock the callback may need
    #[serde(default)]
    pub reentrant_cb: bool,
    /// the process has a `tracing` subscriber that enables every level (the library's log
    /// statements then evaluate their arguments)
    #[serde(default)]
    pub tracing_on: bool,
    /// > 0: cleanup interval in nanoseconds (instead of `cleanup_ms`)
    #[serde(default)]
    pub cleanup_ns: u64,
    /// the key builder overrides `build_key` only and leaves `hash_conflict` at the trait's default (0)
    #[serde(default)]
    pub kb_build_key_only: bool,
}

#[derive(Serialize, Deserialize, Clone, Debug, PartialEq)]
pub enum Op {
    Insert { k: u64, cost: i64, ttl_ns: u64, size: u32 },
    InsertIfPresent { k: u64, cost: i64, size: u32 },
    Remove { k: u64 },
    /// hold the returned reference across `hold` scheduling points
    Get { k: u64, hold: u32 },
    GetMut { k: u64, write: bool, size: u32, hold: u32 },
    GetTtl { k: u64 },
    Len,
    Wait,
    Clear,
    Close,
    UpdateMaxCost { v: i64 },
    MaxCost,
    /// discrete-event sleep in virtual time (timers fire on time)
    Sleep { ns: u64 },
    /// clock jump (fault): time moves at once
    Jump { ns: u64 },
    /// fault: the wall clock (what `SystemTime::now()` reads) is stepped back by `ns`, as an
    /// administrator or a time daemon does; timers and sleeps keep following monotonic time
    WallStepBack { ns: u64 },
    /// fault: the wall clock alone is stepped forward by `ns` (no timer fires early)
    WallStepFwd { ns: u64 },
    /// `n` inserts of the distinct keys `base..base+n` (cost 1, no TTL); the result is the number
    /// that returned true
    InsertMany { base: u64, n: u64 },
    /// all clients stop, the system quiesces, a checkpoint is taken
    Barrier,
    Yield,
    /// drop this client's handle (the client ends)
    DropHandle,
    /// switch off stalls and the eager clock ("faults stop here")
    FaultsOff,
    /// fault: this client sleeps `ns` of virtual time at its (`skip`+1)-th scheduling point from
    /// here, i.e. somewhere inside its next operation
    StallSelf { ns: u64, skip: u32 },
    /// while this client holds the reference of its next `get`/`get_mut` hit it also performs
    /// `what` (0 = close(), 1 = max_cost(), 2 = update_max_cost(v), 3 = insert_if_present(key v of a HIGHER shard), 4 = get_ttl(key v of a higher shard): the clients keep a lock order among themselves) - operations that take no
    /// shard lock and therefore must not care about the held reference
    WhileHolding { what: u8, v: i64 },
    /// fault (async flavour): the future of this client's next remove / wait / clear / close is dropped
    /// once it has been pending more than `after` times, as a timeout or select! would do
    CancelNext { after: u32 },
    /// fault: the cache processor sleeps `ns` of virtual time at its (`skip`+1)-th scheduling
    /// point from here (i.e. somewhere inside whatever it does next)
    StallWorker { ns: u64, skip: u32 },
    /// the application resets its statistics: `cache.metrics.clear()` (a public method of a public
    /// field); nothing but the counters may change
    MetricsReset,
    /// `n` lookups of one key in a row, recorded as ONE operation (result: number of hits)
    GetMany { k: u64, n: u64 },
}

impl Op {
    pub fn key(&self) -> Option<u64> {
        match self {
            Op::Insert { k, .. }
            | Op::InsertIfPresent { k, .. }
            | Op::Remove { k }
            | Op::Get { k, .. }
            | Op::GetMut { k, .. }
            | Op::GetTtl { k }
            | Op::GetMany { k, .. } => Some(*k),
            _ => None,
        }
    }
    /// how many lookups (get / get_mut calls) the operation makes
    pub fn lookups(&self) -> u64 {
        match self {
            Op::Get { .. } | Op::GetMut { .. } => 1,
            Op::GetMany { n, .. } => *n,
            _ => 0,
        }
    }
    pub fn is_write(&self) -> bool {
        matches!(
            self,
            Op::Insert { .. } | Op::InsertIfPresent { .. } | Op::Remove { .. } | Op::GetMut { write: true, .. }
        )
    }
    pub fn name(&self) -> &'static str {
        match self {
            Op::Insert { ttl_ns, .. } => {
                if *ttl_ns > 0 {
                    "insert_with_ttl"
                } else {
                    "insert"
                }
            }
            Op::InsertIfPresent { .. } => "insert_if_present",
            Op::Remove { .. } => "remove",
            Op::Get { .. } => "get",
            Op::GetMut { .. } => "get_mut",
            Op::GetTtl { .. } => "get_ttl",
            Op::Len => "len",
            Op::Wait => "wait",
            Op::Clear => "clear",
            Op::Close => "close",
            Op::UpdateMaxCost { .. } => "update_max_cost",
            Op::MaxCost => "max_cost",
            Op::Sleep { .. } => "sleep",
            Op::Jump { .. } => "jump",
            Op::WallStepBack { .. } => "wall_step_back",
            Op::WallStepFwd { .. } => "wall_step_fwd",
            Op::Barrier => "barrier",
            Op::Yield => "yield",
            Op::DropHandle => "drop_handle",
            Op::FaultsOff => "faults_off",
            Op::StallSelf { .. } => "stall_self",
            Op::WhileHolding { .. } => "while_holding",
            Op::CancelNext { .. } => "cancel_next",
            Op::GetMany { .. } => "get_many",
            Op::InsertMany { .. } => "insert_many",
            Op::MetricsReset => "metrics_reset",
            Op::StallWorker { .. } => "stall_worker",
        }
    }
}

#[derive(Serialize, Deserialize, Clone, Debug)]
pub struct Chaos {
    /// fires once the global step counter reaches this value
    pub at_step: u64,
    pub op: Op,
}

#[derive(Serialize, Deserialize, Clone, Debug)]
pub enum SchedMode {
    RandomWalk { stay_permille: u32 },
    Pct { depth: u32, est_steps: u32 },
    RoundRobin { quantum: u32 },
}

#[derive(Serialize, Deserialize, Clone, Debug)]
pub struct StallPlan {
    pub at_step: u64,
    pub task: String,
    pub for_steps: u64,
    /// > 0: the stall lasts this long in virtual time (see sim-rt `Stall::for_ns`)
    #[serde(default)]
    pub for_ns: u64,
}

#[derive(Serialize, Deserialize, Clone, Debug)]
pub struct SimPlan {
    pub mode: SchedMode,
    pub eager_clock_permille: u32,
    pub throttle: u32,
    pub stalls: Vec<StallPlan>,
    /// sub-second phase of the virtual epoch
    pub epoch_phase_ns: u64,
    pub max_steps: u64,
    /// ‰ chance that a worker is stalled right after taking a message out of a channel (sync flavour)
    #[serde(default)]
    pub stall_after_recv_permille: u32,
    /// every scheduling point costs this much virtual time (0 = computation is free)
    #[serde(default)]
    pub step_cost_ns: u64,
    /// host environment: the run's process is confined to this many CPUs (0 = all of them), which is
    /// what `std::thread::available_parallelism()` then reports (a 1-vCPU VM, a container CPU limit)
    #[serde(default)]
    pub cpus: u8,
}

#[derive(Serialize, Deserialize, Clone, Debug, PartialEq, Eq)]
pub enum Finale {
    /// just stop
    None,
    /// controller closes the cache and checks the workers end
    Close,
    /// every handle is dropped without close
    DropAll,
}

#[derive(Serialize, Deserialize, Clone, Debug)]
pub struct Plan {
    pub prop: String,
    pub family: String,
    pub seed: u64,
    pub cfg: Cfg,
    pub sim: SimPlan,
    pub clients: Vec<Vec<Op>>,
    pub chaos: Vec<Chaos>,
    pub finale: Finale,
    /// key universe (for estimates / probes)
    pub universe: Vec<u64>,
    /// free-form flags the generator wants the oracles to know
    pub tags: Vec<String>,
}

impl Plan {
    pub fn has_tag(&self, t: &str) -> bool {
        self.tags.iter().any(|x| x == t)
    }
    pub fn n_ops(&self) -> usize {
        self.clients.iter().map(|c| c.len()).sum::<usize>() + self.chaos.len()
    }
}

/// Value id of the value written by op `idx` of client `c` (chaos tasks use c = 100 + i).
pub fn val_id(client: usize, idx: usize) -> u64 {
    (client as u64 + 1) * 100_000 + idx as u64
}
