//! Lock-step reference model: a map with TTLs (C03, C04, C05 and parts of C09/C11).
//!
//! Valid for plans tagged `lockstep` (one client; a quiescent barrier between a write to a
//! key and the next operation that depends on it).  Time is interval arithmetic: an insert
//! read the clock somewhere in [t_inv, t_ret].

use crate::exec::*;
use crate::gen::{MS, SEC};
use crate::hist::*;
use crate::plan::*;
use std::collections::BTreeMap;

#[derive(Clone, Debug)]
pub struct MEntry {
    pub val: Val,
    pub ttl: u64,
    /// deadline interval [lo, hi]; None = never expires
    pub exp: Option<(u64, u64)>,
    pub write_seq: u64,
    /// index in hist.ops of the insert
    pub op: usize,
}

#[derive(Default, Clone)]
pub struct Model {
    pub map: BTreeMap<u64, MEntry>,
    /// entries that have expired (deadline certainly passed) but are not known to be reclaimed:
    /// they still count in len() and hold their charge
    pub zombies: Vec<MEntry>,
    /// last write (seq) per key, to know whether a lookup is "settled"
    pub dirty: BTreeMap<u64, u64>,
    /// keys written again before the previous write had been applied (the second New item is
    /// legitimately refused as a duplicate): their content is unknown until the next settled write
    pub ambiguous: std::collections::BTreeSet<u64>,
}

pub struct TtlOutcome {
    pub violations: Vec<Violation>,
    pub nontrivial: bool,
    pub probes: BTreeMap<&'static str, u64>,
}

fn settled(h: &Hist, dirty_seq: u64, at_seq: u64) -> bool {
    dirty_seq == 0 || h.quiescent_between(dirty_seq, at_seq).is_some()
}

pub fn check_ttl(h: &Hist, want: &[&str]) -> TtlOutcome {
    let mut out = TtlOutcome { violations: vec![], nontrivial: false, probes: BTreeMap::new() };
    let plan = h.plan;
    if !plan.has_tag("lockstep") || !h.built_ok {
        return out;
    }
    let c03 = want.contains(&"C03");
    let c04 = want.contains(&"C04");
    let c05 = want.contains(&"C05");
    let fault_free = plan.has_tag("fault_free");
    let cleanup = plan.cfg.cleanup_ms * MS;
    let over_cap = h.over_capacity_seen();
    let mut m = Model::default();
    let mut last_clear_inv: Option<u64> = None;
    let mut last_fault_now: u64 = 0; // time at which the last time-fault (jump / faults-off) ended
    let mut faults_off_seen = false;
    let mut expired_seen = 0u64;
    let mut ttl_to_none = 0u64;
    let mut shared_bucket_update = 0u64;
    let c09 = want.contains(&"C09");
    let mut c09_keys: std::collections::BTreeSet<u64> = Default::default();
    let mut ifpresent_updates = 0u64;
    let mut ifpresent_absent = 0u64;
    let mut vetoes = 0u64;
    let mut veto_pending: Vec<u64> = Vec::new();
    // charge each value had when last seen in a quiescent snapshot
    let mut charge_of: BTreeMap<u64, i64> = BTreeMap::new();
    // obligations: expired entries that must be reclaimed
    let mut must_reclaim: Vec<(MEntry, u64)> = Vec::new();

    // walk ops and checkpoints in sequence order
    #[derive(Clone, Copy)]
    enum Item {
        Op(usize),
        Cp(usize),
    }
    let mut items: Vec<(u64, Item)> = Vec::new();
    for (i, o) in h.ops.iter().enumerate() {
        if o.client < 90 {
            items.push((o.ret_seq.unwrap_or(o.inv_seq), Item::Op(i)));
        }
    }
    for (i, c) in h.cps.iter().enumerate() {
        items.push((c.seq, Item::Cp(i)));
    }
    items.sort_by_key(|x| x.0);

    for (_, it) in items {
        match it {
            Item::Op(i) => {
                let o = &h.ops[i];
                if !o.returned() {
                    continue;
                }
                match (&o.op, o.res.as_ref().unwrap()) {
                    (Op::Insert { k, ttl_ns, .. }, res) => {
                        let had = m.map.get(k).cloned();
                        let prev_dirty = m.dirty.get(k).copied().unwrap_or(0);
                        if settled(h, prev_dirty, o.inv_seq) {
                            m.ambiguous.remove(k);
                        } else {
                            m.ambiguous.insert(*k);
                        }
                        if vetoed_in(h, o) {
                            // the validator vetoed the replacement: value and TTL stay as they were
                            c09_keys.insert(*k);
                            vetoes += 1;
                            // a vetoed insert still queues a New item: if the resident entry may already
                            // have expired it can be swept first and the newcomer admitted afterwards
                            let maybe_expired = had.as_ref().map_or(true, |e| e.exp.map_or(false, |(lo, _)| o.ret_now >= lo));
                            if maybe_expired {
                                m.ambiguous.insert(*k);
                            }
                            // the queued item may also be applied late (after the deadline): decided
                            // when the next quiescent checkpoint tells how late
                            veto_pending.push(*k);
                            m.dirty.insert(*k, o.ret_seq.unwrap());
                            continue;
                        }
                        match res {
                            Res::Bool(true) => {
                                if let Some(prev) = &had {
                                    if prev.ttl > 0 && *ttl_ns == 0 {
                                        ttl_to_none += 1;
                                    }
                                    if prev.exp.is_some() || *ttl_ns > 0 {
                                        shared_bucket_update += 1;
                                    }
                                    // overwritten before expiry: no reclaim obligation
                                }
                                // an expired-but-unreclaimed entry that is overwritten leaves through
                                // on_exit: no reclaim obligation remains ("unless overwritten first")
                                let idx = h.index_of(*k);
                                must_reclaim.retain(|(e, _)| h.index_of(e.val.key) != idx);
                                m.zombies.retain(|e| h.index_of(e.val.key) != idx);
                                let exp = if *ttl_ns > 0 { Some((o.inv_now + ttl_ns, o.ret_now + ttl_ns)) } else { None };
                                m.map.insert(*k, MEntry { val: o.val.unwrap(), ttl: *ttl_ns, exp, write_seq: o.ret_seq.unwrap(), op: i });
                                m.dirty.insert(*k, o.ret_seq.unwrap());
                            }
                            Res::Bool(false) => {
                                if c04 && plan.has_tag("under_capacity") && plan.cfg.validator == Validator::Always {
                                    out.violations.push(viol(
                                        "C04",
                                        "R-refused",
                                        o.ret_seq.unwrap(),
                                        "insert returned false although the buffer cannot be full",
                                        format!("insert({}) returned false; buffer_size={} ops={}", k, plan.cfg.buffer_size, plan.n_ops()),
                                    ));
                                }
                                m.dirty.insert(*k, o.ret_seq.unwrap());
                            }
                            _ => {}
                        }
                    }
                    (Op::InsertIfPresent { k, .. }, res) => {
                        c09_keys.insert(*k);
                        let prev_dirty = m.dirty.get(k).copied().unwrap_or(0);
                        let was_settled = settled(h, prev_dirty, o.inv_seq) && !m.ambiguous.contains(k);
                        let vetoed = vetoed_in(h, o);
                        let ok = matches!(res, Res::Bool(true));
                        if !matches!(res, Res::Bool(_)) {
                            continue;
                        }
                        match m.map.get(k).cloned() {
                            Some(e) => {
                                let surely_live = e.exp.map_or(true, |(lo, _)| o.ret_now < lo);
                                if vetoed {
                                    if ok && c09 {
                                        out.violations.push(violk("C09", "R-veto-ignored", o.ret_seq.unwrap(), *k, "insert_if_present returned true although the validator vetoed the replacement", format!("{:?} over {:?}", o.val, e.val)));
                                    }
                                } else if ok {
                                    let idx = h.index_of(*k);
                                    must_reclaim.retain(|(z, _)| h.index_of(z.val.key) != idx);
                                    m.zombies.retain(|z| h.index_of(z.val.key) != idx);
                                    m.map.insert(*k, MEntry { val: o.val.unwrap(), ttl: 0, exp: None, write_seq: o.ret_seq.unwrap(), op: i });
                                    ifpresent_updates += 1;
                                } else if was_settled && surely_live && c09 {
                                    out.violations.push(violk("C09", "R-ifpresent-refused-on-resident", o.ret_seq.unwrap(), *k, "insert_if_present returned false on a resident key", format!("key {} holds {:?}", k, e.val)));
                                }
                            }
                            None => {
                                let zombie = m.zombies.iter().any(|z| z.val.key == *k);
                                if ok && !zombie && was_settled {
                                    if c09 {
                                        out.violations.push(violk("C09", "R-ifpresent-created", o.ret_seq.unwrap(), *k, "insert_if_present returned true on an absent key", format!("key {} absent in the reference map; value {:?}", k, o.val)));
                                    }
                                } else if ok {
                                    // revived an expired-but-unreclaimed entry (or state unknown)
                                    let idx = h.index_of(*k);
                                    must_reclaim.retain(|(z, _)| h.index_of(z.val.key) != idx);
                                    m.zombies.retain(|z| h.index_of(z.val.key) != idx);
                                    m.map.insert(*k, MEntry { val: o.val.unwrap(), ttl: 0, exp: None, write_seq: o.ret_seq.unwrap(), op: i });
                                } else {
                                    ifpresent_absent += 1;
                                }
                            }
                        }
                        m.dirty.insert(*k, o.ret_seq.unwrap());
                    }
                    (Op::Remove { k }, _) => {
                        let prev_dirty = m.dirty.get(k).copied().unwrap_or(0);
                        if settled(h, prev_dirty, o.inv_seq) {
                            m.ambiguous.remove(k);
                        } else {
                            m.ambiguous.insert(*k);
                        }
                        let idx = h.index_of(*k);
                        must_reclaim.retain(|(e, _)| h.index_of(e.val.key) != idx);
                        m.zombies.retain(|e| h.index_of(e.val.key) != idx);
                        m.map.remove(k);
                        m.dirty.insert(*k, o.ret_seq.unwrap());
                    }
                    (Op::Clear, _) => {
                        m.map.clear();
                        m.ambiguous.clear();
                        m.zombies.clear();
                        must_reclaim.clear();
                        last_clear_inv = Some(o.inv_seq);
                        for k in &plan.universe {
                            m.dirty.insert(*k, o.ret_seq.unwrap());
                        }
                    }
                    (Op::Jump { .. }, _) => {
                        last_fault_now = last_fault_now.max(o.ret_now);
                    }
                    (Op::FaultsOff, _) => {
                        last_fault_now = last_fault_now.max(o.ret_now);
                        faults_off_seen = true;
                    }
                    (Op::StallSelf { ns, .. }, _) | (Op::StallWorker { ns, .. }, _) => {
                        last_fault_now = last_fault_now.max(o.ret_now + ns);
                    }
                    (Op::Get { k, .. }, Res::Got(g)) => {
                        let seen = g.map(|(a, b, t)| (a, b, t));
                        lookup_check(h, &mut out, &m, *k, o, seen.map(|x| x.0), seen.map(|x| x.2), c03, c04, over_cap, &mut expired_seen);
                        if let Some((a, b, _)) = seen {
                            if a != b && want.contains(&"C02") {
                                out.violations.push(viol("C02", "R6-held-ref-changed", o.ret_seq.unwrap(), "value changed under a held ValueRef", format!("get({}) saw {:?} then {:?}", k, a, b)));
                            }
                        }
                    }
                    (Op::GetMut { k, write: false, .. }, Res::GotMut(g)) => {
                        lookup_check(h, &mut out, &m, *k, o, g.map(|x| x.0), None, c03, c04, over_cap, &mut expired_seen);
                    }
                    (Op::GetTtl { k }, Res::Ttl(t)) => {
                        ttl_check(h, &mut out, &m, *k, o, *t, c03, c04, over_cap);
                    }
                    _ => {}
                }
            }
            Item::Cp(ci) => {
                let cp = &h.cps[ci];
                if !cp.quiescent {
                    continue;
                }
                let t = cp.now;
                for k in veto_pending.drain(..) {
                    if m.map.get(&k).map_or(true, |e| e.exp.map_or(false, |(lo, _)| t >= lo)) {
                        m.ambiguous.insert(k);
                    }
                }
                // move certainly-expired entries to the obligations list
                let keys: Vec<u64> = m.map.keys().copied().collect();
                for k in keys {
                    let e = m.map.get(&k).unwrap().clone();
                    if let Some((_, hi)) = e.exp {
                        if t >= hi && settled(h, e.write_seq, cp.seq) && !m.ambiguous.contains(&k) {
                            m.map.remove(&k);
                            must_reclaim.push((e.clone(), hi));
                            m.zombies.push(e);
                        }
                    }
                }
                let (Some(entries), Some((_, used, pol))) = (cp.snap.entries.as_ref(), cp.snap.policy.as_ref()) else { continue };
                let _ = used;
                // remember charges
                for e in entries {
                    if let Some((_, c)) = pol.iter().find(|(k, _)| *k == e.index) {
                        charge_of.insert(e.val.id, *c);
                    }
                }
                // C04: every live model entry is resident with the right value
                if c04 && !over_cap {
                    for (k, e) in m.map.iter() {
                        if !settled(h, e.write_seq, cp.seq) || m.ambiguous.contains(k) {
                            continue;
                        }
                        let live = e.exp.map_or(true, |(lo, _)| t < lo);
                        if !live {
                            continue;
                        }
                        let idx = h.index_of(*k);
                        let found = entries.iter().find(|x| x.index == idx);
                        match found {
                            Some(x) if x.val.id == e.val.id => {}
                            other => out.violations.push(violk(
                                "C04",
                                "R-lost",
                                cp.seq,
                                *k,
                                if e.ttl == 0 { "entry without TTL missing from the store" } else { "unexpired entry missing from the store" },
                                format!("checkpoint {} t={}: key {} should hold {:?} (ttl={}ns exp={:?}), store has {:?}", cp.id, t, k, e.val, e.ttl, e.exp, other.map(|x| x.val)),
                            )),
                        }
                    }
                    // nothing else is resident except expired-but-unreclaimed entries
                    for x in entries {
                        let known_live = m.map.values().any(|e| e.val.id == x.val.id);
                        let zombie = m.zombies.iter().any(|e| e.val.id == x.val.id);
                        let unsettled = m.dirty.get(&x.val.key).map_or(false, |d| !settled(h, *d, cp.seq)) || m.ambiguous.contains(&x.val.key);
                        if !known_live && !zombie && !unsettled {
                            out.violations.push(violk(
                                "C04",
                                "R-ghost",
                                cp.seq,
                                x.val.key,
                                "store holds an entry the reference map does not",
                                format!("checkpoint {} t={}: store has {:?} for index {}, model has {:?}", cp.id, t, x.val, x.index, m.map.get(&x.val.key).map(|e| e.val)),
                            ));
                        }
                    }
                    if cp.snap.len != entries.len() {
                        out.violations.push(viol("C04", "R-len", cp.seq, "len() differs from the number of resident entries", format!("len()={} entries={}", cp.snap.len, entries.len())));
                    }
                }
                // C05: reclaimed within the bound
                if c05 && !over_cap {
                    let mut keep = Vec::new();
                    for (e, hi) in must_reclaim.drain(..) {
                        if m.ambiguous.contains(&e.val.key) {
                            // the index may meanwhile be held (and charged) by a write whose fate the
                            // model does not know: no claim
                            m.zombies.retain(|z| z.val.id != e.val.id);
                            continue;
                        }
                        let due = hi.max(last_fault_now) + SEC + cleanup;
                        // a faulty configuration only promises reclamation once faults have stopped
                        let strict = fault_free || faults_off_seen;
                        let resident = entries.iter().any(|x| x.val.id == e.val.id);
                        let idx = h.index_of(e.val.key);
                        let newer_same_index = m.map.values().any(|x| h.index_of(x.val.key) == idx);
                        let charged = pol.iter().any(|(k, _)| *k == idx) && !newer_same_index;
                        let evicts: Vec<&CbRec> = h.cbs.iter().filter(|c| c.val.map(|v| v.id) == Some(e.val.id) && c.seq < cp.seq).collect();
                        if !resident && !charged {
                            // reclaimed: exactly one on_evict with value and charge
                            expired_seen += 1;
                            let n_ev = evicts.iter().filter(|c| c.kind == CbKind::Evict).count();
                            if evicts.len() != 1 || n_ev != 1 {
                                out.violations.push(violk(
                                    "C05",
                                    "R2-callback-count",
                                    cp.seq,
                                    e.val.key,
                                    "reclaimed expired entry not handed to on_evict exactly once",
                                    format!("value {:?}: callbacks {:?}", e.val, evicts.iter().map(|c| (c.kind, c.seq)).collect::<Vec<_>>()),
                                ));
                            } else if let Some(ch) = charge_at(h, h.index_of(e.val.key), evicts[0].seq).as_ref().or(charge_of.get(&e.val.id)) {
                                if evicts[0].cost != *ch && plan.cfg.callback == CallbackMode::Full {
                                    out.violations.push(violk(
                                        "C05",
                                        "R2-callback-cost",
                                        cp.seq,
                                        e.val.key,
                                        "on_evict cost differs from the charged cost",
                                        format!("value {:?}: on_evict cost {} charged {}", e.val, evicts[0].cost, ch),
                                    ));
                                }
                            }
                            m.zombies.retain(|z| z.val.id != e.val.id);
                            continue;
                        }
                        if strict && t >= due {
                            out.violations.push(violk(
                                "C05",
                                "R2-not-reclaimed",
                                cp.seq,
                                e.val.key,
                                if fault_free { "expired entry not reclaimed within bucket width + cleanup interval (fault-free)" } else { "expired entry not reclaimed after faults stopped" },
                                format!(
                                    "checkpoint {} t={}: value {:?} deadline<= {} (+1s+{}ms = {}), resident={} charged={} cleanup_ms={}",
                                    cp.id, t, e.val, hi, plan.cfg.cleanup_ms, due, resident, charged, plan.cfg.cleanup_ms
                                ),
                            ));
                            m.zombies.retain(|z| z.val.id != e.val.id);
                            continue;
                        }
                        keep.push((e, hi));
                    }
                    must_reclaim = keep;
                }
            }
        }
    }

    // C05 R1/R3: no cleanup eviction before the deadline, none for entries without TTL
    if (c05 || c04) && !over_cap {
        for c in h.cbs.iter().filter(|c| c.kind == CbKind::Evict || (plan.cfg.callback == CallbackMode::ExitOnly && c.task.starts_with("processor"))) {
            let Some(v) = c.val else { continue };
            // find the insert op that wrote v
            let Some(o) = h.ops.iter().find(|o| o.val.map(|x| x.id) == Some(v.id)) else { continue };
            // drained by a clear: exempt
            if let Some(ci) = clear_covering(h, c.seq) {
                let _ = ci;
                continue;
            }
            if !o.returned() {
                continue;
            }
            if let Op::Insert { ttl_ns, .. } = o.op {
                let early = if ttl_ns == 0 { true } else { c.now < o.inv_now + ttl_ns };
                if early && c.task.starts_with("processor") {
                    let prop = if c05 { "C05" } else { "C04" };
                    out.violations.push(violk(
                        prop,
                        "R3-evicted-unexpired",
                        c.seq,
                        v.key,
                        if ttl_ns == 0 { "entry without TTL handed to on_evict below capacity" } else { "entry evicted before its TTL elapsed below capacity" },
                        format!("value {:?} ttl={}ns inserted at [{},{}] evicted at t={} (item exp created={} ttl={})", v, ttl_ns, o.inv_now, o.ret_now, c.now, c.created_ns, c.ttl_ns),
                    ));
                }
            }
        }
    }
    let _ = last_clear_inv;
    if c09 {
        // value / TTL / presence violations on keys touched by insert_if_present or a veto are C09's
        let mut extra = Vec::new();
        for v in out.violations.iter() {
            if (v.prop == "C03" || v.prop == "C04" || v.prop == "C05") && v.key.map_or(false, |k| c09_keys.contains(&k)) {
                let mut w = v.clone();
                w.prop = "C09".into();
                w.rule = format!("{}-after-conditional-write", v.rule);
                w.fingerprint = format!("after insert_if_present / validator veto: {}", v.fingerprint);
                extra.push(w);
            }
        }
        out.violations.extend(extra);
        out.probes.insert("insert_if_present_on_resident", ifpresent_updates);
        out.probes.insert("insert_if_present_on_absent", ifpresent_absent);
        out.probes.insert("validator_veto", vetoes);
        if ifpresent_updates + ifpresent_absent + vetoes > 0 {
            out.nontrivial = true;
        }
    }
    out.nontrivial |= expired_seen > 0 || ttl_to_none > 0 || shared_bucket_update > 0;
    out.probes.insert("expired_entry_observed", expired_seen);
    out.probes.insert("ttl_to_no_ttl_reinsert", ttl_to_none);
    out.probes.insert("ttl_update_of_resident", shared_bucket_update);
    out
}

fn clear_covering(h: &Hist, seq: u64) -> Option<usize> {
    // a callback is attributed to a clear if a clear was invoked before it and the cache has not
    // quiesced in between
    for (i, o) in h.ops.iter().enumerate() {
        if matches!(o.op, Op::Clear | Op::Close) && o.inv_seq < seq {
            if h.quiescent_between(o.ret_seq_or_max().min(seq), seq).is_none() || o.ret_seq_or_max() > seq {
                return Some(i);
            }
        }
    }
    None
}

#[allow(clippy::too_many_arguments)]
fn lookup_check(h: &Hist, out: &mut TtlOutcome, m: &Model, k: u64, o: &OpRec, got: Option<Val>, ttl: Option<u64>, c03: bool, c04: bool, over_cap: bool, expired_seen: &mut u64) {
    let d = m.dirty.get(&k).copied().unwrap_or(0);
    if !settled(h, d, o.inv_seq) || m.ambiguous.contains(&k) {
        return;
    }
    match m.map.get(&k) {
        None => {
            // zombies (expired) or never written / removed: nothing may be returned
            if let Some(v) = got {
                let z = m.zombies.iter().find(|z| z.val.id == v.id);
                if let Some(z) = z {
                    if c03 {
                        out.violations.push(violk("C03", "R-served-after-ttl", o.ret_seq.unwrap(), k, "expired entry returned by a lookup", format!("{}({}) at [{},{}] returned {:?} whose deadline was <= {:?}", o.op.name(), k, o.inv_now, o.ret_now, v, z.exp)));
                    }
                } else if c04 {
                    out.violations.push(violk("C04", "R-phantom", o.ret_seq.unwrap(), k, "lookup returned a value the reference map does not hold", format!("{}({}) returned {:?}", o.op.name(), k, v)));
                }
            }
        }
        Some(e) => {
            let (must_see, must_not) = match e.exp {
                None => (true, false),
                Some((lo, hi)) => (o.ret_now < lo, o.inv_now >= hi),
            };
            if must_not {
                *expired_seen += 1;
            }
            match got {
                Some(v) => {
                    if v.id != e.val.id {
                        if c04 {
                            out.violations.push(violk("C04", "R-wrong-value", o.ret_seq.unwrap(), k, "lookup returned another value than the last one written", format!("{}({}) returned {:?}, model {:?}", o.op.name(), k, v, e.val)));
                        }
                    } else if must_not && c03 {
                        out.violations.push(violk("C03", "R-served-after-ttl", o.ret_seq.unwrap(), k, "entry returned after its TTL elapsed", format!("{}({}) at [{},{}] returned {:?}; ttl={} deadline in {:?}", o.op.name(), k, o.inv_now, o.ret_now, v, e.ttl, e.exp)));
                    }
                    if let (Some(t), true) = (ttl, c03) {
                        ttl_value_check(out, e, o, t);
                    }
                }
                None => {
                    if must_see && !over_cap {
                        if e.ttl == 0 {
                            if c03 {
                                out.violations.push(violk("C03", "R-no-ttl-vanished", o.ret_seq.unwrap(), k, "entry inserted without TTL became invisible", format!("{}({}) at t={} returned nothing; last write {:?} (no TTL) at seq {}", o.op.name(), k, o.ret_now, e.val, e.write_seq)));
                            }
                            if c04 {
                                out.violations.push(violk("C04", "R-lost", o.ret_seq.unwrap(), k, "entry without TTL missing from the store", format!("{}({}) at t={} returned nothing; last write {:?} (no TTL)", o.op.name(), k, o.ret_now, e.val)));
                            }
                        } else if c04 {
                            out.violations.push(violk("C04", "R-lost", o.ret_seq.unwrap(), k, "unexpired entry missing from the store", format!("{}({}) at t={} returned nothing; last write {:?} ttl={} deadline>= {:?}", o.op.name(), k, o.ret_now, e.val, e.ttl, e.exp)));
                        }
                    }
                }
            }
        }
    }
}

fn ttl_value_check(out: &mut TtlOutcome, e: &MEntry, o: &OpRec, t: u64) {
    let ins_inv = e.exp.map(|(lo, _)| lo - e.ttl);
    let ins_ret = e.exp.map(|(_, hi)| hi - e.ttl);
    match (e.ttl, ins_inv, ins_ret) {
        (0, _, _) => {
            if t != u64::MAX {
                out.violations.push(violk("C03", "R-ttl-of-no-ttl", o.ret_seq.unwrap(), e.val.key, "entry without TTL reports an expiry", format!("{}({}) reported ttl {}ns for {:?}", o.op.name(), e.val.key, t, e.val)));
            }
        }
        (d, Some(ii), Some(ir)) => {
            // remaining = d - (now_read - created), created ∈ [ii, ir], now_read ∈ [o.inv, o.ret]
            let lo = d.saturating_sub(o.ret_now.saturating_sub(ii));
            let hi = d.saturating_sub(o.inv_now.saturating_sub(ir));
            if t == u64::MAX || t > d || t < lo || t > hi {
                out.violations.push(violk(
                    "C03",
                    "R-ttl-value",
                    o.ret_seq.unwrap(), e.val.key,
                    "reported remaining TTL outside the possible interval",
                    format!("{}({}) reported {}ns; ttl={} insert@[{},{}] lookup@[{},{}] allows [{},{}]", o.op.name(), e.val.key, t, d, ii, ir, o.inv_now, o.ret_now, lo, hi),
                ));
            }
        }
        _ => {}
    }
}

#[allow(clippy::too_many_arguments)]
fn ttl_check(h: &Hist, out: &mut TtlOutcome, m: &Model, k: u64, o: &OpRec, t: Option<u64>, c03: bool, c04: bool, over_cap: bool) {
    let d = m.dirty.get(&k).copied().unwrap_or(0);
    if !settled(h, d, o.inv_seq) || m.ambiguous.contains(&k) {
        return;
    }
    match m.map.get(&k) {
        None => {
            if let Some(t) = t {
                if m.zombies.iter().any(|z| z.val.key == k) {
                    if c03 {
                        out.violations.push(violk("C03", "R-ttl-after-expiry", o.ret_seq.unwrap(), k, "get_ttl reports an entry whose TTL has elapsed", format!("get_ttl({}) = {}ns at t={}", k, t, o.inv_now)));
                    }
                } else if c04 {
                    out.violations.push(violk("C04", "R-phantom", o.ret_seq.unwrap(), k, "get_ttl reports an entry the reference map does not hold", format!("get_ttl({}) = {}", k, t)));
                }
            }
        }
        Some(e) => {
            let (must_see, must_not) = match e.exp {
                None => (true, false),
                Some((lo, hi)) => (o.ret_now < lo, o.inv_now >= hi),
            };
            match t {
                Some(t) => {
                    if must_not && c03 {
                        out.violations.push(violk("C03", "R-ttl-after-expiry", o.ret_seq.unwrap(), k, "get_ttl reports an entry whose TTL has elapsed", format!("get_ttl({}) = {}ns at [{},{}], deadline {:?}", k, t, o.inv_now, o.ret_now, e.exp)));
                    } else if c03 {
                        ttl_value_check(out, e, o, t);
                    }
                }
                None => {
                    if must_see && !over_cap {
                        if e.ttl == 0 && c03 {
                            out.violations.push(violk("C03", "R-no-ttl-vanished", o.ret_seq.unwrap(), k, "entry inserted without TTL became invisible", format!("get_ttl({}) at t={} returned nothing; last write {:?} (no TTL)", k, o.ret_now, e.val)));
                        }
                        if c04 {
                            out.violations.push(violk("C04", "R-lost", o.ret_seq.unwrap(), k, if e.ttl == 0 { "entry without TTL missing from the store" } else { "unexpired entry missing from the store" }, format!("get_ttl({}) at t={} returned nothing; model {:?} exp {:?}", k, o.ret_now, e.val, e.exp)));
                        }
                    }
                }
            }
        }
    }
}

/// true if the validator vetoed the replacement attempted by this operation
fn vetoed_in(h: &Hist, o: &OpRec) -> bool {
    let Some(v) = o.val else { return false };
    h.evs.iter().any(|e| e.seq > o.inv_seq && e.seq < o.ret_seq_or_max() && matches!(&e.kind, EvKind::Validate { curr, ok: false, .. } if curr.id == v.id))
}

/// the charge the policy held for `index` just before sequence number `seq`, from the
/// admission and cost-update observers
fn charge_at(h: &Hist, index: u64, seq: u64) -> Option<i64> {
    let mut cur = None;
    for (e, o) in h.obs() {
        if e.seq >= seq {
            break;
        }
        match o {
            ObsEv::AddExit { key, cost, added: true, .. } if *key == index => cur = Some(*cost),
            ObsEv::CostUpdate { key, cost, .. } if *key == index => cur = Some(*cost),
            ObsEv::PolicyCleared => cur = None,
            _ => {}
        }
    }
    cur
}
