//! Stub fidelity: random single-threaded sequences of non-blocking operations on the real
//! `crossbeam_channel` and on the simulator channel must give identical results.

use stretto_sim_rt::rt::Rng;
use stretto_sim_rt::sync as sim;

#[derive(Debug, PartialEq, Clone)]
enum R {
    SendOk,
    SendFull,
    SendDisc,
    Recv(u32),
    RecvEmpty,
    RecvDisc,
    Len(usize),
    None,
}

pub fn channel_selftest(n_seq: u64, seed: u64) -> Result<u64, String> {
    let mut ops_total = 0u64;
    for s in 0..n_seq {
        let mut rng = Rng::new(seed ^ s.wrapping_mul(0x9E3779B97F4A7C15));
        let cap = match rng.below(4) {
            0 => None,
            1 => Some(0usize),
            _ => Some(rng.range(1, 4) as usize),
        };
        let (rtx, rrx) = match cap {
            None => crossbeam_channel::unbounded::<u32>(),
            Some(c) => crossbeam_channel::bounded::<u32>(c),
        };
        let (stx, srx) = match cap {
            None => sim::unbounded::<u32>(),
            Some(c) => sim::bounded::<u32>(c),
        };
        let mut rtxs = vec![rtx];
        let mut rrxs = vec![rrx];
        let mut stxs = vec![stx];
        let mut srxs = vec![srx];
        let mut next = 0u32;
        let steps = rng.range(5, 60);
        let mut trace = Vec::new();
        for _ in 0..steps {
            ops_total += 1;
            let op = rng.below(100);
            let (a, b): (R, R) = if op < 35 {
                if rtxs.is_empty() {
                    (R::None, R::None)
                } else {
                    let i = rng.below(rtxs.len() as u64) as usize;
                    next += 1;
                    let a = match rtxs[i].try_send(next) {
                        Ok(()) => R::SendOk,
                        Err(crossbeam_channel::TrySendError::Full(_)) => R::SendFull,
                        Err(crossbeam_channel::TrySendError::Disconnected(_)) => R::SendDisc,
                    };
                    let b = match stxs[i].try_send(next) {
                        Ok(()) => R::SendOk,
                        Err(sim::TrySendError::Full(_)) => R::SendFull,
                        Err(sim::TrySendError::Disconnected(_)) => R::SendDisc,
                    };
                    (a, b)
                }
            } else if op < 70 {
                if rrxs.is_empty() {
                    (R::None, R::None)
                } else {
                    let i = rng.below(rrxs.len() as u64) as usize;
                    let a = match rrxs[i].try_recv() {
                        Ok(v) => R::Recv(v),
                        Err(crossbeam_channel::TryRecvError::Empty) => R::RecvEmpty,
                        Err(crossbeam_channel::TryRecvError::Disconnected) => R::RecvDisc,
                    };
                    let b = match srxs[i].try_recv() {
                        Ok(v) => R::Recv(v),
                        Err(sim::TryRecvError::Empty) => R::RecvEmpty,
                        Err(sim::TryRecvError::Disconnected) => R::RecvDisc,
                    };
                    (a, b)
                }
            } else if op < 78 {
                if let (Some(t), Some(u)) = (rtxs.first(), stxs.first()) {
                    (R::Len(t.len()), R::Len(u.len()))
                } else if let (Some(t), Some(u)) = (rrxs.first(), srxs.first()) {
                    (R::Len(t.len()), R::Len(u.len()))
                } else {
                    (R::None, R::None)
                }
            } else if op < 84 {
                if let Some(t) = rtxs.first().cloned() {
                    rtxs.push(t);
                    let u = stxs[0].clone();
                    stxs.push(u);
                }
                (R::None, R::None)
            } else if op < 88 {
                if let Some(t) = rrxs.first().cloned() {
                    rrxs.push(t);
                    let u = srxs[0].clone();
                    srxs.push(u);
                }
                (R::None, R::None)
            } else if op < 94 {
                if !rtxs.is_empty() {
                    let i = rng.below(rtxs.len() as u64) as usize;
                    rtxs.remove(i);
                    stxs.remove(i);
                }
                (R::None, R::None)
            } else {
                if !rrxs.is_empty() {
                    let i = rng.below(rrxs.len() as u64) as usize;
                    rrxs.remove(i);
                    srxs.remove(i);
                }
                (R::None, R::None)
            };
            trace.push((op, a.clone(), b.clone()));
            if a != b {
                return Err(format!("sequence {} (cap {:?}): real {:?} vs stub {:?}; trace {:?}", s, cap, a, b, trace));
            }
        }
    }
    // tick: first delivery at now + d, re-armed at receipt time + d (outside a simulation the
    // stub reads the real clock, like crossbeam)
    let d = std::time::Duration::from_millis(30);
    let rt = crossbeam_channel::tick(d);
    let st = sim::tick(d);
    if rt.try_recv().is_ok() || st.try_recv().is_ok() {
        return Err("tick fired immediately".into());
    }
    std::thread::sleep(std::time::Duration::from_millis(45));
    if rt.try_recv().is_err() || st.try_recv().is_err() {
        return Err("tick did not fire after its period".into());
    }
    if rt.try_recv().is_ok() || st.try_recv().is_ok() {
        return Err("tick fired twice for one period".into());
    }
    std::thread::sleep(std::time::Duration::from_millis(100));
    // no catch-up: exactly one message after three missed periods
    let (a1, a2) = (rt.try_recv().is_ok(), rt.try_recv().is_ok());
    let (b1, b2) = (st.try_recv().is_ok(), st.try_recv().is_ok());
    if (a1, a2) != (b1, b2) {
        return Err(format!("tick catch-up differs: real {:?} stub {:?}", (a1, a2), (b1, b2)));
    }
    Ok(ops_total)
}
