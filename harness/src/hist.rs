//! Indexed view of a run's event log, shared by all oracles.

use crate::exec::*;
use crate::plan::*;
use std::collections::BTreeMap;

#[derive(Clone, Debug)]
pub struct OpRec {
    pub client: usize,
    pub idx: usize,
    pub op: Op,
    pub val: Option<Val>,
    pub inv_seq: u64,
    pub inv_now: u64,
    pub ret_seq: Option<u64>,
    pub ret_now: u64,
    pub res: Option<Res>,
    pub task: String,
}

impl OpRec {
    pub fn returned(&self) -> bool {
        self.ret_seq.is_some()
    }
    pub fn ret_seq_or_max(&self) -> u64 {
        self.ret_seq.unwrap_or(u64::MAX)
    }
    pub fn ok_true(&self) -> bool {
        matches!(self.res, Some(Res::Bool(true)))
    }
}

#[derive(Clone, Debug)]
pub struct CbRec {
    pub seq: u64,
    pub now: u64,
    pub task: String,
    pub kind: CbKind,
    pub val: Option<Val>,
    pub index: u64,
    pub conflict: u64,
    pub cost: i64,
    pub created_ns: u64,
    pub ttl_ns: u64,
    /// index into `ops` of the client operation inside which the callback ran
    pub in_op: Option<usize>,
}

#[derive(Clone, Debug)]
pub struct CpRec {
    pub seq: u64,
    pub now: u64,
    pub id: usize,
    pub snap: Snap,
    pub quiescent: bool,
}

pub struct Hist<'a> {
    pub plan: &'a Plan,
    pub evs: &'a [Ev],
    pub ops: Vec<OpRec>,
    pub cbs: Vec<CbRec>,
    pub cps: Vec<CpRec>,
    pub built_ok: bool,
    pub build_err: String,
    pub item_size: usize,
    pub kb: HKb,
    pub keymaps: Vec<Vec<(u64, u64, u64, u64, u64)>>,
    pub keymap: BTreeMap<u64, u64>,
}

impl<'a> Hist<'a> {
    pub fn new(plan: &'a Plan, evs: &'a [Ev]) -> Self {
        let mut ops: Vec<OpRec> = Vec::new();
        let mut open: BTreeMap<(usize, usize), usize> = BTreeMap::new();
        let mut open_by_task: BTreeMap<String, usize> = BTreeMap::new();
        let mut cbs = Vec::new();
        let mut cps = Vec::new();
        let mut built_ok = false;
        let mut build_err = String::new();
        let mut item_size = 0;
        let mut keymaps: Vec<Vec<(u64, u64, u64, u64, u64)>> = Vec::new();
        for e in evs {
            match &e.kind {
                EvKind::Inv { client, idx, op, val } => {
                    open.insert((*client, *idx), ops.len());
                    open_by_task.insert(e.task.clone(), ops.len());
                    ops.push(OpRec {
                        client: *client,
                        idx: *idx,
                        op: op.clone(),
                        val: *val,
                        inv_seq: e.seq,
                        inv_now: e.now,
                        ret_seq: None,
                        ret_now: 0,
                        res: None,
                        task: e.task.clone(),
                    });
                }
                EvKind::Ret { client, idx, res } => {
                    if let Some(i) = open.remove(&(*client, *idx)) {
                        ops[i].ret_seq = Some(e.seq);
                        ops[i].ret_now = e.now;
                        ops[i].res = Some(res.clone());
                        if open_by_task.get(&e.task) == Some(&i) {
                            open_by_task.remove(&e.task);
                        }
                    }
                }
                EvKind::Cb { kind, val, index, conflict, cost, created_ns, ttl_ns } => {
                    cbs.push(CbRec {
                        seq: e.seq,
                        now: e.now,
                        task: e.task.clone(),
                        kind: *kind,
                        val: *val,
                        index: *index,
                        conflict: *conflict,
                        cost: *cost,
                        created_ns: *created_ns,
                        ttl_ns: *ttl_ns,
                        in_op: open_by_task.get(&e.task).copied(),
                    });
                }
                EvKind::Checkpoint { id, snap, quiescent } => {
                    cps.push(CpRec { seq: e.seq, now: e.now, id: *id, snap: snap.clone(), quiescent: *quiescent });
                }
                EvKind::KeyMap(km) => keymaps.push(km.clone()),
                EvKind::Built { ok, err, item_size: sz } => {
                    built_ok = *ok;
                    build_err = err.clone();
                    item_size = *sz;
                }
                _ => {}
            }
        }
        let keymap: BTreeMap<u64, u64> = if matches!(plan.cfg.keys, KeyMode::Typed { .. }) { keymaps.first().map(|km| km.iter().map(|x| (x.0, x.1)).collect()).unwrap_or_default() } else { BTreeMap::new() };
        Hist { plan, evs, ops, cbs, cps, built_ok, build_err, item_size, kb: HKb(plan.cfg.keys.clone()), keymaps, keymap }
    }

    pub fn index_of(&self, k: u64) -> u64 {
        match self.keymap.get(&k) {
            Some(i) => *i,
            None => self.kb.of(k).0,
        }
    }

    /// the last quiescent checkpoint strictly between two sequence numbers, if any
    pub fn quiescent_between(&self, lo: u64, hi: u64) -> Option<&CpRec> {
        self.cps.iter().rev().find(|c| c.quiescent && c.seq > lo && c.seq < hi)
    }

    pub fn ops_of_kind<'b>(&'b self, name: &'b str) -> impl Iterator<Item = &'b OpRec> + 'b {
        self.ops.iter().filter(move |o| o.op.name() == name)
    }

    pub fn any_err_or_panic(&self) -> bool {
        self.ops.iter().any(|o| matches!(o.res, Some(Res::Err(_)) | Some(Res::Panic(_))))
    }

    pub fn obs(&self) -> impl Iterator<Item = (&Ev, &ObsEv)> {
        self.evs.iter().filter_map(|e| match &e.kind {
            EvKind::Obs(o) => Some((e, o)),
            _ => None,
        })
    }

    /// true if the policy ever had to run an eviction round or reject (i.e. the run was not
    /// strictly under capacity)
    pub fn over_capacity_seen(&self) -> bool {
        self.obs().any(|(_, o)| match o {
            ObsEv::AddRound { .. } => true,
            ObsEv::AddExit { added: false, cost, max_cost, key, key_costs, .. } => {
                // oversize reject
                *cost > *max_cost && !key_costs.iter().any(|(k, _)| k == key)
            }
            _ => false,
        })
    }
}

#[derive(Clone, Debug, serde::Serialize, serde::Deserialize)]
pub struct Violation {
    pub prop: String,
    pub rule: String,
    pub seq: u64,
    pub detail: String,
    /// key the violation is about, when there is one
    #[serde(default)]
    pub key: Option<u64>,
    /// stable fingerprint used for known-findings matching
    pub fingerprint: String,
}

pub fn viol(prop: &str, rule: &str, seq: u64, fingerprint: &str, detail: String) -> Violation {
    Violation { prop: prop.into(), rule: rule.into(), seq, detail, key: None, fingerprint: fingerprint.into() }
}

pub fn violk(prop: &str, rule: &str, seq: u64, key: u64, fingerprint: &str, detail: String) -> Violation {
    Violation { prop: prop.into(), rule: rule.into(), seq, detail, key: Some(key), fingerprint: fingerprint.into() }
}
