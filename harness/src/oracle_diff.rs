//! C19: result-by-result comparison of the same lock-step plan on `Cache` and `AsyncCache`.

use crate::exec::*;
use crate::hist::*;
use crate::oracle_p::POut;
use std::collections::BTreeMap;

fn abstract_snap(s: &Snap) -> String {
    let m = s.metrics.as_ref().map(|m| (m.hits, m.misses, m.keys_added, m.keys_updated, m.keys_evicted, m.cost_added, m.cost_evicted, m.sets_dropped, m.sets_rejected, m.gets_dropped, m.gets_kept));
    format!(
        "len={} entries={:?} policy={:?} buckets={:?} estimates={:?} metrics={:?} max_cost={} closed={}",
        s.len,
        s.entries.as_ref().map(|e| e.iter().map(|x| (x.index, x.conflict, x.val.id, x.created_ns, x.ttl_ns)).collect::<Vec<_>>()),
        s.policy,
        s.buckets,
        s.estimates,
        m,
        s.max_cost_api,
        s.is_closed
    )
}

pub fn compare(a: &Hist, b: &Hist) -> POut {
    let mut out = POut { violations: vec![], probes: BTreeMap::new(), nontrivial: false };
    if a.built_ok != b.built_ok {
        out.violations.push(viol("C19", "R-build", 0, "the builders of the two flavours disagree on a configuration", format!("sync ok={} ({}) async ok={} ({})", a.built_ok, a.build_err, b.built_ok, b.build_err)));
        return out;
    }
    if !a.built_ok {
        return out;
    }
    // operation results, in script order (one client)
    let oa: Vec<&OpRec> = a.ops.iter().filter(|o| o.client < 90).collect();
    let ob: Vec<&OpRec> = b.ops.iter().filter(|o| o.client < 90).collect();
    for (x, y) in oa.iter().zip(ob.iter()) {
        if x.res != y.res {
            out.violations.push(viol("C19", "R-result", x.inv_seq, &format!("{} returns different results on Cache and AsyncCache", x.op.name()), format!("op#{} {:?}: sync {:?} async {:?}", x.idx, x.op, x.res, y.res)));
            return out;
        }
    }
    if oa.len() != ob.len() {
        out.violations.push(viol("C19", "R-progress", 0, "one flavour completed fewer operations than the other", format!("sync {} ops, async {} ops", oa.len(), ob.len())));
        return out;
    }
    out.nontrivial = oa.len() > 2;
    // checkpoints
    for (x, y) in a.cps.iter().zip(b.cps.iter()) {
        let (sx, sy) = (abstract_snap(&x.snap), abstract_snap(&y.snap));
        if sx != sy {
            let what = if format!("{:?}", x.snap.metrics.as_ref().map(|m| (m.hits, m.misses))) != format!("{:?}", y.snap.metrics.as_ref().map(|m| (m.hits, m.misses))) || x.snap.entries.as_ref().map(|e| e.len()) != y.snap.entries.as_ref().map(|e| e.len()) { "store / metrics" } else { "policy / expiry / metrics detail" };
            out.violations.push(viol("C19", "R-state", x.seq, &format!("quiescent state differs between Cache and AsyncCache ({})", what), format!("checkpoint {}:\n  sync : {}\n  async: {}", x.id, sx, sy)));
            return out;
        }
    }
    // callbacks between consecutive checkpoints, as multisets
    let seg = |h: &Hist| -> Vec<Vec<(String, Option<u64>, i64)>> {
        let mut v: Vec<Vec<(String, Option<u64>, i64)>> = vec![vec![]; h.cps.len() + 1];
        for c in &h.cbs {
            let i = h.cps.iter().filter(|p| p.seq < c.seq).count();
            v[i].push((format!("{:?}", c.kind), c.val.map(|x| x.id), c.cost));
        }
        for s in v.iter_mut() {
            s.sort();
        }
        v
    };
    let (ca, cb) = (seg(a), seg(b));
    if ca != cb {
        out.violations.push(viol("C19", "R-callbacks", 0, "callbacks differ between Cache and AsyncCache", format!("sync {:?}\nasync {:?}", ca, cb)));
    }
    *out.probes.entry("differential_pairs_compared").or_default() += 1;
    if a.cbs.iter().any(|c| c.kind == CbKind::Evict) {
        *out.probes.entry("pair_with_eviction_or_expiry").or_default() += 1;
    }
    out
}
