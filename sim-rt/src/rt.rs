//! Scheduler core: real OS threads, exactly one of which runs at a time (the "baton").
//!
//! A task gives up the baton only inside simulator calls (`sched_point`, `block`, `sleep`,
//! task exit).  The task that gives it up decides — from the run's choice source — who runs
//! next and wakes exactly that thread.  All nondeterminism of a run therefore flows through
//! `Choices`, which is either a PRNG or a recorded vector (replay / shrinking).

use std::cell::{Cell, RefCell};
use std::panic::{catch_unwind, AssertUnwindSafe};
use std::sync::atomic::{AtomicBool, AtomicU64, Ordering};
use std::sync::{Arc, Condvar, Mutex, MutexGuard};

pub type TaskId = usize;

// ------------------------------------------------------------------------------------------
// PRNG (xoshiro256** seeded by splitmix64) — no external dependency, stable across versions.
// ------------------------------------------------------------------------------------------

#[derive(Clone, Debug)]
pub struct Rng {
    s: [u64; 4],
}

pub fn splitmix64(x: &mut u64) -> u64 {
    *x = x.wrapping_add(0x9E3779B97F4A7C15);
    let mut z = *x;
    z = (z ^ (z >> 30)).wrapping_mul(0xBF58476D1CE4E5B9);
    z = (z ^ (z >> 27)).wrapping_mul(0x94D049BB133111EB);
    z ^ (z >> 31)
}

impl Rng {
    pub fn new(seed: u64) -> Self {
        let mut x = seed;
        let s = [
            splitmix64(&mut x),
            splitmix64(&mut x),
            splitmix64(&mut x),
            splitmix64(&mut x),
        ];
        Rng { s }
    }
    pub fn next_u64(&mut self) -> u64 {
        let r = self.s[1].wrapping_mul(5).rotate_left(7).wrapping_mul(9);
        let t = self.s[1] << 17;
        self.s[2] ^= self.s[0];
        self.s[3] ^= self.s[1];
        self.s[1] ^= self.s[2];
        self.s[0] ^= self.s[3];
        self.s[2] ^= t;
        self.s[3] = self.s[3].rotate_left(45);
        r
    }
    /// uniform in 0..n (n>0)
    pub fn below(&mut self, n: u64) -> u64 {
        debug_assert!(n > 0);
        // multiply-shift; bias is irrelevant for our n
        ((self.next_u64() as u128 * n as u128) >> 64) as u64
    }
    pub fn range(&mut self, lo: u64, hi_incl: u64) -> u64 {
        lo + self.below(hi_incl - lo + 1)
    }
    pub fn chance(&mut self, num: u64, den: u64) -> bool {
        self.below(den) < num
    }
    pub fn pick<'a, T>(&mut self, xs: &'a [T]) -> &'a T {
        &xs[self.below(xs.len() as u64) as usize]
    }
}

// ------------------------------------------------------------------------------------------
// Choice source
// ------------------------------------------------------------------------------------------

/// Every run-time decision is one `choose(n)`.  On replay the recorded pick is used modulo
/// `n`, and a pick beyond the end of the vector is 0 ("stay on the current task / first
/// option"), so any truncation or zeroing of the vector is still a valid schedule.
pub struct Choices {
    rng: Option<Rng>,
    replay: Vec<u32>,
    pos: usize,
    pub record: Vec<u32>,
    pub recording: bool,
    pub drawn: u64,
    rot: usize,
}

impl Choices {
    /// A uniform pick among the ready arms of a `select`.  Beyond the end of a replay vector
    /// the arms are taken in rotation instead of "always the first": with several arms ready
    /// for ever (disconnected channels) "always the first" is an unfair schedule under which
    /// the loop around the select never leaves, which the real (random) select cannot do.
    pub fn choose_rot(&mut self, n: usize) -> usize {
        if self.rng.is_none() && self.pos >= self.replay.len() && n > 1 {
            self.drawn += 1;
            self.pos += 1;
            self.rot += 1;
            let pick = self.rot % n;
            if self.recording {
                self.record.push(pick as u32);
            }
            return pick;
        }
        self.choose(n, None)
    }

    pub fn from_seed(seed: u64) -> Self {
        Choices {
            rng: Some(Rng::new(seed)),
            replay: Vec::new(),
            pos: 0,
            record: Vec::new(),
            recording: false,
            drawn: 0,
            rot: 0,
        }
    }
    pub fn from_vec(v: Vec<u32>) -> Self {
        Choices {
            rng: None,
            replay: v,
            pos: 0,
            record: Vec::new(),
            recording: false,
            drawn: 0,
            rot: 0,
        }
    }
    /// `stay_permille`: probability (‰) of option 0 when drawing from the PRNG; `None` = uniform.
    pub fn choose(&mut self, n: usize, stay_permille: Option<u32>) -> usize {
        debug_assert!(n > 0);
        self.drawn += 1;
        let pick = if n == 1 {
            // still consumes a slot on replay so that vectors stay aligned
            if self.rng.is_none() {
                self.pos += 1;
            }
            0
        } else if let Some(rng) = self.rng.as_mut() {
            match stay_permille {
                Some(p) => {
                    if rng.below(1000) < p as u64 {
                        0
                    } else {
                        1 + rng.below(n as u64 - 1) as usize
                    }
                }
                None => rng.below(n as u64) as usize,
            }
        } else {
            let v = self.replay.get(self.pos).copied().unwrap_or(0);
            self.pos += 1;
            (v as usize) % n
        };
        if self.recording {
            self.record.push(pick as u32);
        }
        pick
    }
}

// ------------------------------------------------------------------------------------------
// Configuration
// ------------------------------------------------------------------------------------------

#[derive(Clone, Debug)]
pub enum Mode {
    /// stay on the current task with probability `stay_permille`, otherwise uniform
    RandomWalk { stay_permille: u32 },
    /// PCT-style: random priorities, `depth` priority change points spread over `est_steps`
    Pct { depth: u32, est_steps: u32 },
    /// run each task for `quantum` scheduling points in turn
    RoundRobin { quantum: u32 },
}

#[derive(Clone, Debug, PartialEq, Eq)]
pub enum Kind {
    Controller,
    Client,
    Chaos,
    Worker,
}

/// A planned stall: from global step `at_step`, tasks whose name contains `name_contains`
/// are unschedulable for `for_steps` scheduling points (unless nothing else can run).
#[derive(Clone, Debug)]
pub struct Stall {
    pub at_step: u64,
    pub name_contains: String,
    pub for_steps: u64,
    /// > 0: a stall in *virtual time* instead: at its next scheduling point the task sleeps for
    /// this long (a descheduled thread, a slow callback) while everybody else carries on and
    /// the clock moves - also in the middle of an operation, also while it holds a lock
    pub for_ns: u64,
}

#[derive(Clone, Debug)]
pub struct SimCfg {
    pub mode: Mode,
    /// ‰ chance per scheduling point (while timers are pending) that the clock jumps to the
    /// next timer although tasks are runnable ("late processor").
    pub eager_clock_permille: u32,
    /// of N consecutive lock acquisitions from the same source line by the same task only
    /// ~1/N are scheduling decisions (shard loops)
    pub throttle: u32,
    pub max_steps: u64,
    pub max_virtual_ns: u64,
    /// virtual time without any client/controller task running, while one of them is blocked,
    /// after which the run is declared stuck
    pub stuck_ns: u64,
    pub stalls: Vec<Stall>,
    pub epoch_ns: u64,
    /// cooperative fault point ("buggify"): ‰ chance that a worker task which has just taken a
    /// message out of a channel is stalled for a while before it acts on it (the buffer is
    /// empty, the item not yet applied)
    pub stall_after_recv_permille: u32,
    /// > 0: every scheduling point costs this much virtual time (computation takes time: the clock
    /// moves although tasks are runnable)
    pub step_cost_ns: u64,
}

impl Default for SimCfg {
    fn default() -> Self {
        SimCfg {
            mode: Mode::RandomWalk { stay_permille: 800 },
            eager_clock_permille: 0,
            throttle: 32,
            max_steps: 200_000,
            max_virtual_ns: 4 * 3600 * 1_000_000_000,
            stuck_ns: 60 * 1_000_000_000,
            stalls: Vec::new(),
            epoch_ns: 1_700_000_000 * 1_000_000_000,
            stall_after_recv_permille: 0,
            step_cost_ns: 0,
        }
    }
}

// ------------------------------------------------------------------------------------------
// State
// ------------------------------------------------------------------------------------------

struct Parker {
    m: Mutex<bool>,
    cv: Condvar,
}

impl Parker {
    fn new() -> Self {
        Parker {
            m: Mutex::new(false),
            cv: Condvar::new(),
        }
    }
    fn park(&self) {
        let mut g = self.m.lock().unwrap_or_else(|e| e.into_inner());
        while !*g {
            g = self.cv.wait(g).unwrap_or_else(|e| e.into_inner());
        }
        *g = false;
    }
    fn unpark(&self) {
        let mut g = self.m.lock().unwrap_or_else(|e| e.into_inner());
        *g = true;
        self.cv.notify_one();
    }
}

struct PredPtr(*const (dyn Fn() -> bool + 'static));
unsafe impl Send for PredPtr {}

enum TState {
    Runnable,
    Blocked { pred: PredPtr, label: &'static str },
    /// runnable only when nothing else is (and before time is advanced)
    Quiesce,
    Sleeping(u64),
    Finished,
    Panicked(String),
}

struct Task {
    name: String,
    kind: Kind,
    state: TState,
    parker: Arc<Parker>,
    prio: i64,
    stalled_until: u64,
    vstall_ns: u64,
    vstall_skip: u32,
    last_site: u64,
    runs: u64,
}

#[derive(Clone, Debug)]
pub enum End {
    Completed,
    Deadlock(String),
    Stuck(String),
    StepLimit,
    TimeLimit,
}

pub struct TimerSlot {
    pub deadline: AtomicU64,
    pub waker: Mutex<Option<std::task::Waker>>,
}

#[derive(Default, Clone, Debug)]
pub struct Counters {
    pub steps: u64,
    pub switches: u64,
    pub time_advances: u64,
    pub eager_advances: u64,
    pub clock_jumps: u64,
    pub wall_steps_back: u64,
    pub wall_steps_fwd: u64,
    pub spin_advances: u64,
    pub stall_skips: u64,
    pub blocks: u64,
    pub select_choices: u64,
    pub stalls_after_recv: u64,
    pub vstalls: u64,
}

struct State {
    tasks: Vec<Task>,
    cur: TaskId,
    choices: Choices,
    cfg: SimCfg,
    now: u64,
    seq: u64,
    ctr: Counters,
    sched_sig: u64,
    timers: Vec<Arc<TimerSlot>>,
    last_client_run_at: u64,
    ended: Option<End>,
    pct_change_points: Vec<u64>,
    rr_left: u32,
    /// the deciding task asked to yield: other candidates come first and "pick 0" is another task
    yielding: bool,
    /// consecutive scheduling decisions that kept the same task running although others could run
    streak: u64,
    streak_of: usize,
}

pub struct Sim {
    st: Mutex<State>,
    host: Parker,
}

/// Mirror of the global step counter, readable from block predicates (which must not
/// call into the simulator).
pub static STEPS: AtomicU64 = AtomicU64::new(0);
/// Mirror of the virtual clock, for the same reason.
pub static NOW: AtomicU64 = AtomicU64::new(0);
/// True while a simulation runs in this process: the harness binary's `clock_gettime` then
/// answers CLOCK_MONOTONIC* from `NOW`, so that `std::time::Instant` follows the virtual clock
/// (code under test that measures real elapsed time - budgets, timeouts - sees simulated time).
pub static SIM_CLOCK_ON: AtomicBool = AtomicBool::new(false);

thread_local! {
    static CTX: RefCell<Option<(Arc<Sim>, TaskId)>> = const { RefCell::new(None) };
    static ATOMIC: Cell<u32> = const { Cell::new(0) };
}

fn ctx() -> Option<(Arc<Sim>, TaskId)> {
    CTX.with(|c| c.borrow().clone())
}

pub fn active() -> bool {
    CTX.with(|c| c.borrow().is_some())
}

pub fn in_atomic() -> bool {
    ATOMIC.with(|a| a.get() > 0)
}

fn fnv(h: u64, x: u64) -> u64 {
    let mut h = h ^ x;
    h = h.wrapping_mul(0x100000001b3);
    h ^ (h >> 29)
}

pub fn site_hash(loc: &std::panic::Location<'_>) -> u64 {
    let mut h = 0xcbf29ce484222325u64;
    for b in loc.file().bytes() {
        h = fnv(h, b as u64);
    }
    fnv(fnv(h, loc.line() as u64), loc.column() as u64)
}

impl Sim {
    fn lock(&self) -> MutexGuard<'_, State> {
        self.st.lock().unwrap_or_else(|e| e.into_inner())
    }
}

// ------------------------------------------------------------------------------------------
// Public API used by hooks and by the harness
// ------------------------------------------------------------------------------------------

pub struct Outcome {
    pub end: End,
    pub counters: Counters,
    pub now_ns: u64,
    pub epoch_ns: u64,
    pub choices: Vec<u32>,
    pub choices_drawn: u64,
    pub sched_sig: u64,
    pub tasks: Vec<(String, String)>,
}

/// Run `main` as task 0 ("controller") of a fresh simulation on a new thread; returns when it
/// finishes or the simulation aborts (deadlock, stuck, bounds).  Other tasks stay parked
/// forever — the caller is expected to be a short-lived (forked) process.
pub fn run<F: FnOnce() + Send + 'static>(cfg: SimCfg, mut choices: Choices, record: bool, main: F) -> Outcome {
    choices.recording = record;
    let epoch = cfg.epoch_ns;
    let mut st = State {
        tasks: Vec::new(),
        cur: 0,
        choices,
        now: epoch,
        seq: 0,
        ctr: Counters::default(),
        sched_sig: 0xcbf29ce484222325,
        timers: Vec::new(),
        last_client_run_at: epoch,
        ended: None,
        pct_change_points: Vec::new(),
        rr_left: 0,
        yielding: false,
        streak: 0,
        streak_of: usize::MAX,
        cfg,
    };
    if let Mode::Pct { depth, est_steps } = st.cfg.mode.clone() {
        for _ in 0..depth {
            let p = st.choices.choose(est_steps.max(1) as usize, None) as u64;
            st.pct_change_points.push(p);
        }
    }
    STEPS.store(0, Ordering::SeqCst);
    SIM_CLOCK_ON.store(true, Ordering::SeqCst);
    NOW.store(epoch, Ordering::SeqCst);
    WALL_SKEW_NS.store(0, Ordering::SeqCst);
    PROGRESS_STEP.store(0, Ordering::SeqCst);
    let sim = Arc::new(Sim {
        st: Mutex::new(st),
        host: Parker::new(),
    });
    let id = new_task(&sim, "main".into(), Kind::Controller);
    debug_assert_eq!(id, 0);
    start_thread(sim.clone(), id, Box::new(main));
    // hand the baton to task 0
    {
        let st = sim.lock();
        st.tasks[0].parker.unpark();
    }
    sim.host.park();
    SIM_CLOCK_ON.store(false, Ordering::SeqCst);
    let mut st = sim.lock();
    let tasks = st
        .tasks
        .iter()
        .map(|t| (t.name.clone(), state_str(&t.state)))
        .collect();
    Outcome {
        end: st.ended.clone().unwrap_or(End::Completed),
        counters: st.ctr.clone(),
        now_ns: st.now,
        epoch_ns: st.cfg.epoch_ns,
        choices: std::mem::take(&mut st.choices.record),
        choices_drawn: st.choices.drawn,
        sched_sig: st.sched_sig,
        tasks,
    }
}

fn state_str(s: &TState) -> String {
    match s {
        TState::Runnable => "runnable".into(),
        TState::Blocked { label, .. } => format!("blocked:{}", label),
        TState::Quiesce => "quiesce".into(),
        TState::Sleeping(u) => format!("sleeping:{}", u),
        TState::Finished => "finished".into(),
        TState::Panicked(m) => format!("panicked:{}", m),
    }
}

fn new_task(sim: &Arc<Sim>, name: String, kind: Kind) -> TaskId {
    let mut st = sim.lock();
    let prio = if matches!(st.cfg.mode, Mode::Pct { .. }) {
        1000 + st.choices.choose(1000, None) as i64
    } else {
        0
    };
    let n = st.tasks.iter().filter(|t| t.name.starts_with(&name)).count();
    let name = if n == 0 { name } else { format!("{}#{}", name, n) };
    st.tasks.push(Task {
        name,
        kind,
        state: TState::Runnable,
        parker: Arc::new(Parker::new()),
        prio,
        stalled_until: 0,
        vstall_ns: 0,
        vstall_skip: 0,
        last_site: 0,
        runs: 0,
    });
    st.tasks.len() - 1
}

fn start_thread(sim: Arc<Sim>, id: TaskId, f: Box<dyn FnOnce() + Send + 'static>) {
    let parker = sim.lock().tasks[id].parker.clone();
    std::thread::Builder::new()
        .stack_size(1 << 20)
        .spawn(move || {
            parker.park();
            CTX.with(|c| *c.borrow_mut() = Some((sim.clone(), id)));
            let r = catch_unwind(AssertUnwindSafe(f));
            ATOMIC.with(|a| a.set(0));
            let mut st = sim.lock();
            st.tasks[id].state = match r {
                Ok(()) => TState::Finished,
                Err(p) => TState::Panicked(panic_msg(&p)),
            };
            if id == 0 {
                // controller done: the run is over
                drop(st);
                sim.host.unpark();
                return;
            }
            // pick a successor; this thread then ends
            let next = pick_next(&sim, &mut st, id, 0);
            match next {
                Some(n) => {
                    st.cur = n;
                    st.tasks[n].runs += 1;
                    let p = st.tasks[n].parker.clone();
                    drop(st);
                    p.unpark();
                }
                None => {
                    drop(st);
                    sim.host.unpark();
                }
            }
        })
        .expect("spawn sim thread");
}

pub fn panic_msg(p: &Box<dyn std::any::Any + Send>) -> String {
    if let Some(s) = p.downcast_ref::<&str>() {
        s.to_string()
    } else if let Some(s) = p.downcast_ref::<String>() {
        s.clone()
    } else {
        "non-string panic".into()
    }
}

/// Spawn a new simulator task.  Outside a simulation this is a plain thread.
pub fn spawn_task<F: FnOnce() + Send + 'static>(name: &str, kind: Kind, f: F) -> Option<TaskId> {
    match ctx() {
        None => {
            std::thread::spawn(f);
            None
        }
        Some((sim, _me)) => {
            let id = new_task(&sim, name.to_string(), kind);
            start_thread(sim, id, Box::new(f));
            sched_point_at(0x5a5a);
            Some(id)
        }
    }
}

/// Global sequence number for the harness's event log (monotone, never wall time).
pub fn next_seq() -> u64 {
    match ctx() {
        None => 0,
        Some((sim, _)) => {
            let mut st = sim.lock();
            st.seq += 1;
            st.seq
        }
    }
}

pub fn current_task() -> Option<TaskId> {
    ctx().map(|c| c.1)
}

pub fn current_task_name() -> String {
    match ctx() {
        None => "host".into(),
        Some((sim, me)) => sim.lock().tasks[me].name.clone(),
    }
}

pub fn now_ns() -> Option<u64> {
    if active() {
        Some(NOW.load(Ordering::SeqCst))
    } else {
        None
    }
}

pub fn steps() -> u64 {
    ctx().map(|(sim, _)| sim.lock().ctr.steps).unwrap_or(0)
}

/// (name, state) of every task
pub fn task_states() -> Vec<(String, String)> {
    match ctx() {
        None => vec![],
        Some((sim, _)) => sim
            .lock()
            .tasks
            .iter()
            .map(|t| (t.name.clone(), state_str(&t.state)))
            .collect(),
    }
}

/// Draw a harness-level choice from the run's choice source (uniform).
pub fn choose(n: usize) -> usize {
    match ctx() {
        None => 0,
        Some((sim, _)) => sim.lock().choices.choose(n, None),
    }
}

/// Pick among the ready arms of a select (see [`Choices::choose_rot`]).
pub fn choose_arm(n: usize) -> usize {
    match ctx() {
        None => 0,
        Some((sim, _)) => sim.lock().choices.choose_rot(n),
    }
}

/// Run `f` without scheduling points (harness observation code).
pub fn atomic<R>(f: impl FnOnce() -> R) -> R {
    ATOMIC.with(|a| a.set(a.get() + 1));
    struct G;
    impl Drop for G {
        fn drop(&mut self) {
            ATOMIC.with(|a| a.set(a.get().saturating_sub(1)));
        }
    }
    let _g = G;
    f()
}

pub fn register_timer(slot: Arc<TimerSlot>) {
    if let Some((sim, _)) = ctx() {
        sim.lock().timers.push(slot);
    }
}

#[track_caller]
pub fn sched_point() {
    let loc = std::panic::Location::caller();
    sched_point_at(site_hash(loc));
}

pub fn yield_now() {
    sched_point_at(0x11);
}

/// `thread::yield_now` / a future that wakes itself and returns Pending: let somebody else
/// run if anybody can (keeps spin-waits from starving the task they wait for under the
/// "never preempt" default schedule).
pub fn yield_fair() {
    let Some((sim, _me)) = ctx() else { return };
    if in_atomic() {
        return;
    }
    sim.lock().yielding = true;
    sched_point_at(0x12);
    sim.lock().yielding = false;
}

/// A scheduling point from a lock hook: consecutive acquisitions from the same site by the
/// same task are throttled.
pub fn sched_point_throttled(site: u64) {
    let Some((sim, me)) = ctx() else { return };
    if in_atomic() {
        return;
    }
    {
        let mut st = sim.lock();
        if st.ended.is_some() {
            drop(st);
            park_forever();
        }
        if st.tasks[me].last_site == site && st.cfg.throttle > 1 {
            let n = st.cfg.throttle as usize;
            if st.choices.choose(n, Some(1000 - 1000 / n as u32)) == 0 {
                return;
            }
        }
    }
    sched_point_at(site);
}

fn park_forever() -> ! {
    loop {
        std::thread::park();
    }
}

pub fn sched_point_at(site: u64) {
    let Some((sim, me)) = ctx() else { return };
    if in_atomic() {
        return;
    }
    let mut st = sim.lock();
    if st.ended.is_some() {
        drop(st);
        park_forever();
    }
    st.tasks[me].last_site = site;
    st.ctr.steps += 1;
    STEPS.store(st.ctr.steps, Ordering::SeqCst);
    if let Some(e) = check_bounds(&st) {
        end_run(&sim, st, e);
    }
    if st.cfg.step_cost_ns > 0 {
        let t = st.now + st.cfg.step_cost_ns;
        set_now(&mut st, t);
    }
    // a planned stall in virtual time that has become due for this task
    if st.tasks[me].vstall_ns > 0 && st.tasks[me].vstall_skip > 0 {
        st.tasks[me].vstall_skip -= 1;
    } else if st.tasks[me].vstall_ns > 0 {
        let ns = std::mem::take(&mut st.tasks[me].vstall_ns);
        st.ctr.vstalls += 1;
        let until = st.now + ns;
        st.tasks[me].state = TState::Sleeping(until);
        match pick_next(&sim, &mut st, me, site) {
            Some(next) => switch_to(&sim, st, me, next, site),
            None => {
                drop(st);
                park_forever();
            }
        }
        return;
    }
    // eager clock fault: let time run ahead of runnable tasks
    if st.cfg.eager_clock_permille > 0 {
        let p = st.cfg.eager_clock_permille;
        if st.choices.choose(2, Some(1000 - p)) == 1 {
            if let Some(d) = next_deadline(&st) {
                st.ctr.eager_advances += 1;
                set_now(&mut st, d);
            }
        }
    }
    let next = pick_next(&sim, &mut st, me, site).expect("current task is runnable");
    switch_to(&sim, st, me, next, site);
}

fn check_bounds(st: &State) -> Option<End> {
    if st.ctr.steps > st.cfg.max_steps {
        return Some(End::StepLimit);
    }
    if st.now - st.cfg.epoch_ns > st.cfg.max_virtual_ns {
        return Some(End::TimeLimit);
    }
    None
}

fn end_run(sim: &Arc<Sim>, mut st: MutexGuard<'_, State>, e: End) -> ! {
    if st.ended.is_none() {
        st.ended = Some(e);
    }
    drop(st);
    sim.host.unpark();
    park_forever();
}

fn switch_to(sim: &Arc<Sim>, mut st: MutexGuard<'_, State>, me: TaskId, next: TaskId, site: u64) {
    if next == me {
        st.tasks[me].runs += 1;
        if matches!(st.tasks[me].kind, Kind::Client | Kind::Controller) {
            st.last_client_run_at = st.now;
        }
        // a task that was blocked and picked itself is runnable again
        if !matches!(st.tasks[me].state, TState::Runnable) {
            st.tasks[me].state = TState::Runnable;
        }
        return;
    }
    st.ctr.switches += 1;
    st.sched_sig = fnv(fnv(st.sched_sig, next as u64), site);
    st.cur = next;
    st.tasks[next].runs += 1;
    if matches!(st.tasks[next].kind, Kind::Client | Kind::Controller) {
        st.last_client_run_at = st.now;
    }
    st.tasks[next].state = TState::Runnable;
    let theirs = st.tasks[next].parker.clone();
    let mine = st.tasks[me].parker.clone();
    drop(st);
    theirs.unpark();
    mine.park();
    // we hold the baton again
    let mut st = sim.lock();
    if st.ended.is_some() {
        drop(st);
        park_forever();
    }
    st.tasks[me].state = TState::Runnable;
}

fn is_candidate(st: &State, i: TaskId) -> bool {
    match &st.tasks[i].state {
        TState::Runnable => true,
        TState::Blocked { pred, .. } => unsafe { (*pred.0)() },
        TState::Sleeping(until) => st.now >= *until,
        TState::Quiesce | TState::Finished | TState::Panicked(_) => false,
    }
}

fn next_deadline(st: &State) -> Option<u64> {
    let mut best: Option<u64> = None;
    for t in &st.tasks {
        if let TState::Sleeping(u) = t.state {
            if u > st.now {
                best = Some(best.map_or(u, |b| b.min(u)));
            }
        }
    }
    for t in &st.timers {
        let d = t.deadline.load(Ordering::SeqCst);
        if d != u64::MAX && d > st.now {
            best = Some(best.map_or(d, |b| b.min(d)));
        }
    }
    best
}

fn set_now(st: &mut State, t: u64) {
    if t > st.now {
        st.now = t;
        NOW.store(t, Ordering::SeqCst);
        st.ctr.time_advances += 1;
    }
    // fire async timers that are due
    for slot in &st.timers {
        let d = slot.deadline.load(Ordering::SeqCst);
        if d != u64::MAX && d <= st.now {
            if let Some(w) = slot.waker.lock().unwrap_or_else(|e| e.into_inner()).take() {
                w.wake();
            }
        }
    }
}

/// Choose who runs next.  `me` is the deciding task (it may or may not be a candidate itself).
/// Advances virtual time when nothing can run.  Returns None only when `me` is finished and
/// the run must end (deadlock is reported through `end_run`).
fn pick_next(sim: &Arc<Sim>, st: &mut MutexGuard<'_, State>, me: TaskId, _site: u64) -> Option<TaskId> {
    loop {
        // apply planned stalls that have become due
        let step = st.ctr.steps;
        for i in 0..st.cfg.stalls.len() {
            let s = st.cfg.stalls[i].clone();
            if s.at_step != u64::MAX && step >= s.at_step {
                st.cfg.stalls[i].at_step = u64::MAX;
                for t in st.tasks.iter_mut() {
                    if t.name.contains(&s.name_contains) {
                        if s.for_ns > 0 {
                            t.vstall_ns = s.for_ns;
                        } else {
                            t.stalled_until = step + s.for_steps;
                        }
                    }
                }
            }
        }
        let n = st.tasks.len();
        let mut cands: Vec<TaskId> = Vec::with_capacity(n);
        // order: current first, then the others by id (a yielding task goes last)
        // time slice: a task that never blocks (a hot loop) does not keep the processor for ever on
        // a real machine either; after a long uninterrupted streak it is treated as if it yielded
        let forced_slice = st.streak_of == me && st.streak > 4000;
        if forced_slice {
            st.streak = 0;
        }
        let yielding = st.yielding || forced_slice;
        if !yielding && is_candidate(st, me) {
            cands.push(me);
        }
        for i in 0..n {
            if i != me && is_candidate(st, i) {
                cands.push(i);
            }
        }
        if yielding && is_candidate(st, me) {
            cands.push(me);
        }
        // a busy-polling future (it yields because it woke itself) is the only runnable task while
        // another task sleeps in virtual time: in reality the poller burns time until the sleeper
        // is back, so the clock moves to the sleeper's deadline instead of standing still for ever
        if yielding && cands.len() == 1 && cands[0] == me {
            let wake = st.tasks.iter().filter_map(|t| if let TState::Sleeping(u) = t.state { Some(u) } else { None }).filter(|u| *u > st.now).min();
            if let Some(d) = wake {
                set_now(st, d);
                continue;
            }
        }
        // the same with several pollers (futures that wake themselves, retry loops): they keep one
        // another runnable, so "nothing is runnable" never becomes true and a task sleeping in
        // virtual time - say the processor, descheduled while it holds the lock they all wait
        // for - would sleep for ever.  Spinning burns time: after a long stretch of steps in which
        // the application recorded no event the clock moves to the earliest sleeper's deadline.
        if !cands.is_empty() && step.saturating_sub(PROGRESS_STEP.load(Ordering::SeqCst)) > 20_000 {
            let wake = st.tasks.iter().filter_map(|t| if let TState::Sleeping(u) = t.state { Some(u) } else { None }).filter(|u| *u > st.now).min();
            if let Some(d) = wake {
                PROGRESS_STEP.store(step, Ordering::SeqCst);
                st.ctr.spin_advances += 1;
                set_now(st, d);
                continue;
            }
        }
        if !cands.is_empty() {
            let unstalled: Vec<TaskId> = cands
                .iter()
                .copied()
                .filter(|&i| st.tasks[i].stalled_until <= step)
                .collect();
            if !unstalled.is_empty() && unstalled.len() < cands.len() {
                st.ctr.stall_skips += 1;
                cands = unstalled;
            }
            let was_yielding = st.yielding;
            st.yielding = yielding;
            let next = choose_among(st, me, &cands);
            st.yielding = was_yielding;
            if next == me && cands.len() > 1 {
                if st.streak_of == me {
                    st.streak += 1;
                } else {
                    st.streak_of = me;
                    st.streak = 1;
                }
            } else if next != me {
                st.streak_of = next;
                st.streak = 0;
            }
            return Some(next);
        }
        // nothing runnable: a quiescing task goes first (before time moves)
        let worker_asleep = st.tasks.iter().any(|t| t.kind == Kind::Worker && matches!(t.state, TState::Sleeping(_)));
        if !worker_asleep {
            if let Some(q) = (0..n).find(|&i| matches!(st.tasks[i].state, TState::Quiesce)) {
                return Some(q);
            }
        }
        // advance time
        match next_deadline(st) {
            Some(d) => {
                set_now(st, d);
                if st.now - st.cfg.epoch_ns > st.cfg.max_virtual_ns {
                    st.ended = Some(End::TimeLimit);
                }
                let someone_blocked = st.tasks.iter().any(|t| {
                    matches!(t.kind, Kind::Client | Kind::Controller)
                        && matches!(t.state, TState::Blocked { .. })
                });
                let someone_sleeping = st.tasks.iter().any(|t| matches!(t.state, TState::Sleeping(_)));
                if someone_blocked
                    && !someone_sleeping
                    && st.now.saturating_sub(st.last_client_run_at) > st.cfg.stuck_ns
                {
                    st.ended = Some(End::Stuck(describe(st)));
                }
            }
            None => {
                st.ended = Some(End::Deadlock(describe(st)));
            }
        }
        if st.ended.is_some() {
            sim.host.unpark();
            if matches!(st.tasks[me].state, TState::Finished | TState::Panicked(_)) {
                return None;
            }
            // park forever: need to release the guard first — do it via a tiny trick:
            // callers treat `None` as "park forever" when not finished.
            return None;
        }
    }
}

fn describe(st: &State) -> String {
    st.tasks
        .iter()
        .map(|t| format!("{}={}", t.name, state_str(&t.state)))
        .collect::<Vec<_>>()
        .join(" ")
}

fn choose_among(st: &mut State, me: TaskId, cands: &[TaskId]) -> TaskId {
    let me_first = cands[0] == me;
    match st.cfg.mode.clone() {
        Mode::RandomWalk { stay_permille } => {
            let k = st
                .choices
                .choose(cands.len(), if me_first { Some(stay_permille) } else { None });
            cands[k]
        }
        Mode::RoundRobin { quantum } => {
            if me_first && st.rr_left > 0 && !st.yielding {
                st.rr_left -= 1;
                // still a recorded decision so that replay vectors can deviate here
                let k = st.choices.choose(cands.len(), Some(1000));
                cands[k]
            } else {
                st.rr_left = quantum;
                // next by id after me
                let mut sorted: Vec<TaskId> = cands.to_vec();
                sorted.sort();
                let nxt = sorted.iter().copied().find(|&i| i > me).unwrap_or(sorted[0]);
                // option 0 = the round-robin successor
                let mut order = vec![nxt];
                order.extend(cands.iter().copied().filter(|&i| i != nxt));
                let k = st.choices.choose(order.len(), Some(1000));
                order[k]
            }
        }
        Mode::Pct { .. } => {
            let step = st.ctr.steps;
            if st.pct_change_points.contains(&step) || st.yielding {
                // demote the current task below everything else
                let low = st.tasks.iter().map(|t| t.prio).min().unwrap_or(1);
                // (signed and unbounded below: a saturating floor made every demoted task tie at
                // the floor after ~1000 yields, and the tie-break by id then starved the others)
                st.tasks[me].prio = low - 1;
            }
            let best = cands
                .iter()
                .copied()
                .max_by_key(|&i| (st.tasks[i].prio, usize::MAX - i))
                .unwrap();
            let mut order = vec![best];
            order.extend(cands.iter().copied().filter(|&i| i != best));
            let k = st.choices.choose(order.len(), Some(1000));
            order[k]
        }
    }
}

/// Block the current task until `pred()` holds.  `pred` is evaluated by whichever task makes
/// a scheduling decision; it must not call into the simulator.
pub fn block(label: &'static str, pred: &dyn Fn() -> bool) {
    let Some((sim, me)) = ctx() else {
        // outside a simulation: spin (only used by fallbacks in tests)
        while !pred() {
            std::thread::yield_now();
        }
        return;
    };
    if in_atomic() {
        if pred() {
            return;
        }
        panic!("sim: would block ({}) inside an atomic region", label);
    }
    let mut st = sim.lock();
    if st.ended.is_some() {
        drop(st);
        park_forever();
    }
    st.ctr.steps += 1;
    STEPS.store(st.ctr.steps, Ordering::SeqCst);
    st.ctr.blocks += 1;
    if let Some(e) = check_bounds(&st) {
        end_run(&sim, st, e);
    }
    let p: *const dyn Fn() -> bool = pred;
    let p: *const (dyn Fn() -> bool + 'static) = unsafe { std::mem::transmute(p) };
    st.tasks[me].state = TState::Blocked {
        pred: PredPtr(p),
        label,
    };
    match pick_next(&sim, &mut st, me, 0) {
        Some(next) => switch_to(&sim, st, me, next, label.len() as u64),
        None => {
            drop(st);
            park_forever();
        }
    }
}

/// Block until every other task is idle (blocked on a false predicate or finished) without
/// letting virtual time move.
pub fn quiesce() {
    let Some((sim, me)) = ctx() else { return };
    if in_atomic() {
        panic!("sim: quiesce inside an atomic region");
    }
    let mut st = sim.lock();
    if st.ended.is_some() {
        drop(st);
        park_forever();
    }
    st.ctr.steps += 1;
    STEPS.store(st.ctr.steps, Ordering::SeqCst);
    st.tasks[me].state = TState::Quiesce;
    match pick_next(&sim, &mut st, me, 0) {
        Some(next) => switch_to(&sim, st, me, next, 0x71),
        None => {
            drop(st);
            park_forever();
        }
    }
}

/// Sleep in virtual time (discrete-event: the clock jumps when nothing is runnable).
pub fn sleep_ns(ns: u64) {
    let Some((sim, me)) = ctx() else {
        std::thread::sleep(std::time::Duration::from_nanos(ns));
        return;
    };
    if in_atomic() {
        panic!("sim: sleep inside an atomic region");
    }
    let mut st = sim.lock();
    if st.ended.is_some() {
        drop(st);
        park_forever();
    }
    st.ctr.steps += 1;
    STEPS.store(st.ctr.steps, Ordering::SeqCst);
    let until = st.now + ns;
    st.tasks[me].state = TState::Sleeping(until);
    match pick_next(&sim, &mut st, me, 0) {
        Some(next) => switch_to(&sim, st, me, next, 0x51),
        None => {
            drop(st);
            park_forever();
        }
    }
}

/// The calling task will sleep `ns` of virtual time at its (`skip`+1)-th scheduling point from
/// now: a fault placed at a chosen point *inside* its next operation (between a clock read and
/// the write that uses it, between two lock acquisitions, ...).
pub fn stall_self_later(ns: u64, skip: u32) {
    let Some((sim, me)) = ctx() else { return };
    let mut st = sim.lock();
    st.tasks[me].vstall_ns = ns;
    st.tasks[me].vstall_skip = skip;
}

/// Like [`stall_self_later`] for another task (first task whose name contains `name`, e.g. the
/// cache processor): it will sleep `ns` of virtual time at its (`skip`+1)-th scheduling point.
pub fn stall_task_later(name: &str, ns: u64, skip: u32) {
    let Some((sim, _me)) = ctx() else { return };
    let mut st = sim.lock();
    if let Some(t) = st.tasks.iter_mut().find(|t| t.name.contains(name) && !t.name.contains('#')) {
        t.vstall_ns = ns;
        t.vstall_skip = skip;
    }
}

/// Prefix the names of all worker tasks created so far (a cache built before the one under
/// test: its workers must not be taken for the latter's).
pub fn rename_workers(prefix: &str) {
    let Some((sim, _me)) = ctx() else { return };
    let mut st = sim.lock();
    for t in st.tasks.iter_mut() {
        if t.kind == Kind::Worker && !t.name.starts_with(prefix) {
            t.name = format!("{}{}", prefix, t.name);
        }
    }
}

/// Jump the clock forward by `ns` at once (fault: no timer fires "on time" in between).
pub fn jump_clock_ns(ns: u64) {
    let Some((sim, _me)) = ctx() else { return };
    let mut st = sim.lock();
    st.ctr.clock_jumps += 1;
    let t = st.now + ns;
    set_now(&mut st, t);
}

/// Scheduler step at which the application (the harness's event log) last recorded an event.
pub static PROGRESS_STEP: AtomicU64 = AtomicU64::new(0);

/// Called by the harness whenever it logs an event.
pub fn note_progress() {
    PROGRESS_STEP.store(STEPS.load(Ordering::SeqCst), Ordering::SeqCst);
}

/// Wall-clock skew (ns, either sign): what `time::SystemTime::now()` reads is the virtual clock plus
/// this.  Timers, sleeps and `Instant` keep following the (monotonic) virtual clock, as on a
/// real machine whose administrator or NTP daemon steps CLOCK_REALTIME.
pub static WALL_SKEW_NS: std::sync::atomic::AtomicI64 = std::sync::atomic::AtomicI64::new(0);

/// Fault: step the wall clock back by `ns` (monotonic time is unaffected).
pub fn wall_step_back_ns(ns: u64) {
    let Some((sim, _me)) = ctx() else { return };
    let mut st = sim.lock();
    st.ctr.wall_steps_back += 1;
    let cur = WALL_SKEW_NS.load(Ordering::SeqCst);
    // never before the epoch second the run started in: `Time::unix()` unwraps there
    let floor = -(st.now.saturating_sub(1_000_000_000) as i64);
    WALL_SKEW_NS.store((cur - ns as i64).max(floor), Ordering::SeqCst);
}

/// Fault: step the wall clock forward by `ns` (monotonic time, timers and sleeps are unaffected:
/// no tick fires early because of it).
pub fn wall_step_fwd_ns(ns: u64) {
    let Some((sim, _me)) = ctx() else { return };
    let mut st = sim.lock();
    st.ctr.wall_steps_fwd += 1;
    let cur = WALL_SKEW_NS.load(Ordering::SeqCst);
    WALL_SKEW_NS.store(cur.saturating_add(ns.min(i64::MAX as u64 / 4) as i64), Ordering::SeqCst);
}

/// The wall clock: virtual clock plus skew.
pub fn wall_read() -> Option<u64> {
    let ns = clock_read()?;
    Some((ns as i64 + WALL_SKEW_NS.load(Ordering::SeqCst)).max(0) as u64)
}

/// Cooperative fault point: called by the simulator channel right after a worker task received
/// a message.  With the configured probability the task becomes unschedulable for 3..40 steps
/// (unless nothing else can run).
pub fn maybe_stall_after_recv() {
    let Some((sim, me)) = ctx() else { return };
    if in_atomic() {
        return;
    }
    let mut st = sim.lock();
    let p = st.cfg.stall_after_recv_permille;
    if p == 0 || st.tasks[me].kind != Kind::Worker {
        return;
    }
    if st.choices.choose(2, Some(1000 - p)) == 1 {
        let k = 3 + st.choices.choose(38, None) as u64;
        let until = st.ctr.steps + k;
        st.tasks[me].stalled_until = until;
        st.ctr.stalls_after_recv += 1;
    }
}

/// Same fault, at a lock acquisition of a worker task (an eighth of the configured rate): the
/// async flavour has no channel hook, and "slow in the middle of applying an item" matters for
/// both flavours.
pub fn maybe_stall_worker_at_lock() {
    let Some((sim, me)) = ctx() else { return };
    if in_atomic() {
        return;
    }
    let mut st = sim.lock();
    let p = st.cfg.stall_after_recv_permille / 8;
    if p == 0 || st.tasks[me].kind != Kind::Worker || st.tasks[me].stalled_until > st.ctr.steps {
        return;
    }
    if st.choices.choose(2, Some(1000 - p)) == 1 {
        let k = 3 + st.choices.choose(38, None) as u64;
        let until = st.ctr.steps + k;
        st.tasks[me].stalled_until = until;
        st.ctr.stalls_after_recv += 1;
    }
}

/// Faults stop here: no more stalls, no eager clock.
pub fn faults_off() {
    let Some((sim, _me)) = ctx() else { return };
    let mut st = sim.lock();
    st.cfg.eager_clock_permille = 0;
    st.cfg.stall_after_recv_permille = 0;
    st.cfg.stalls.clear();
    for t in st.tasks.iter_mut() {
        t.stalled_until = 0;
        t.vstall_ns = 0;
        t.vstall_skip = 0;
    }
}

/// Read the virtual clock (a scheduling point unless in an atomic region).
pub fn clock_read() -> Option<u64> {
    if !active() {
        return None;
    }
    sched_point_at(0xc10c);
    now_ns()
}

pub fn count_select() {
    if let Some((sim, _)) = ctx() {
        sim.lock().ctr.select_choices += 1;
    }
}

/// A task-local wake flag for the async executor shim.
pub struct WakeFlag(pub AtomicBool);

impl std::task::Wake for WakeFlag {
    fn wake(self: Arc<Self>) {
        self.0.store(true, Ordering::SeqCst);
    }
    fn wake_by_ref(self: &Arc<Self>) {
        self.0.store(true, Ordering::SeqCst);
    }
}

/// Drive a future to completion on the current simulator task.  "Park" is a simulator block
/// until the waker fires, so wake order is decided by the simulator.
/// Like [`block_on`], but the future is DROPPED (cancelled, as `timeout`/`select!`/task abort
/// do) once it has returned `Pending` more than `max_pending` times: `None`.
pub fn block_on_cancel<F: std::future::Future>(fut: F, max_pending: u32) -> Option<F::Output> {
    let mut fut = std::pin::pin!(fut);
    let flag = Arc::new(WakeFlag(AtomicBool::new(false)));
    let waker = std::task::Waker::from(flag.clone());
    let mut cx = std::task::Context::from_waker(&waker);
    let mut pendings = 0u32;
    loop {
        match fut.as_mut().poll(&mut cx) {
            std::task::Poll::Ready(v) => return Some(v),
            std::task::Poll::Pending => {
                pendings += 1;
                if pendings > max_pending {
                    return None;
                }
                if flag.0.load(Ordering::SeqCst) {
                    yield_fair();
                } else {
                    let f = flag.clone();
                    block("await", &move || f.0.load(Ordering::SeqCst));
                }
                flag.0.store(false, Ordering::SeqCst);
            }
        }
    }
}

pub fn block_on<F: std::future::Future>(fut: F) -> F::Output {
    let mut fut = std::pin::pin!(fut);
    let flag = Arc::new(WakeFlag(AtomicBool::new(false)));
    let waker = std::task::Waker::from(flag.clone());
    let mut cx = std::task::Context::from_waker(&waker);
    loop {
        match fut.as_mut().poll(&mut cx) {
            std::task::Poll::Ready(v) => return v,
            std::task::Poll::Pending => {
                if flag.0.load(Ordering::SeqCst) {
                    // self-woken (a spinning future): behave like a yield
                    yield_fair();
                } else {
                    let f = flag.clone();
                    block("await", &move || f.0.load(Ordering::SeqCst));
                }
                flag.0.store(false, Ordering::SeqCst);
            }
        }
    }
}
