//! The async flavour keeps its real primitives (`async-channel`, `wg::AsyncWaitGroup`); these
//! thin wrappers only put a scheduling point in front of every operation, so that the simulator
//! can interleave another task between, say, a `try_send` and the `add` that follows it.
//! Outside a simulation they are plain pass-throughs.
use crate::rt;

#[track_caller]
fn point() {
    rt::sched_point_throttled(rt::site_hash(std::panic::Location::caller()));
}

pub struct Sender<T>(async_channel::Sender<T>);
pub struct Receiver<T>(async_channel::Receiver<T>);

impl<T> Clone for Sender<T> {
    fn clone(&self) -> Self {
        Sender(self.0.clone())
    }
}
impl<T> Clone for Receiver<T> {
    fn clone(&self) -> Self {
        Receiver(self.0.clone())
    }
}

pub fn bounded<T>(cap: usize) -> (Sender<T>, Receiver<T>) {
    let (s, r) = async_channel::bounded(cap);
    (Sender(s), Receiver(r))
}
pub fn unbounded<T>() -> (Sender<T>, Receiver<T>) {
    let (s, r) = async_channel::unbounded();
    (Sender(s), Receiver(r))
}

impl<T> Sender<T> {
    #[track_caller]
    pub fn try_send(&self, msg: T) -> Result<(), async_channel::TrySendError<T>> {
        point();
        self.0.try_send(msg)
    }
    #[track_caller]
    pub fn send(&self, msg: T) -> async_channel::Send<'_, T> {
        point();
        self.0.send(msg)
    }
    pub fn close(&self) -> bool {
        self.0.close()
    }
    pub fn is_closed(&self) -> bool {
        self.0.is_closed()
    }
    pub fn len(&self) -> usize {
        self.0.len()
    }
    pub fn is_empty(&self) -> bool {
        self.0.is_empty()
    }
}

impl<T> Receiver<T> {
    #[track_caller]
    pub fn try_recv(&self) -> Result<T, async_channel::TryRecvError> {
        point();
        self.0.try_recv()
    }
    #[track_caller]
    pub fn recv(&self) -> async_channel::Recv<'_, T> {
        point();
        self.0.recv()
    }
    #[track_caller]
    pub fn close(&self) -> bool {
        point();
        self.0.close()
    }
    pub fn is_closed(&self) -> bool {
        self.0.is_closed()
    }
    pub fn len(&self) -> usize {
        self.0.len()
    }
    pub fn is_empty(&self) -> bool {
        self.0.is_empty()
    }
}

#[derive(Clone)]
pub struct WaitGroup(wg::AsyncWaitGroup);

impl Default for WaitGroup {
    fn default() -> Self {
        Self::new()
    }
}

impl WaitGroup {
    pub fn new() -> Self {
        WaitGroup(wg::AsyncWaitGroup::new())
    }
    #[track_caller]
    pub fn add(&self, n: usize) -> Self {
        point();
        WaitGroup(self.0.add(n))
    }
    #[track_caller]
    pub fn done(&self) -> usize {
        point();
        self.0.done()
    }
    pub fn waitings(&self) -> usize {
        self.0.waitings()
    }
    #[track_caller]
    pub fn wait(&self) -> impl std::future::Future<Output = ()> + '_ {
        point();
        self.0.wait()
    }
}
