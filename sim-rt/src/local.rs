//! A single-threaded cooperative executor on ONE simulator task: the background futures the
//! cache hands to its `spawner` only run while the client future is pending (the
//! "single-threaded pool" end of C19's quantifier).  Polling order among woken background
//! futures is drawn from the run's choice source.

use crate::rt::{self, WakeFlag};
use std::future::Future;
use std::pin::Pin;
use std::sync::atomic::{AtomicBool, AtomicU64, Ordering};
use std::sync::{Arc, Mutex};
use std::task::{Context, Poll, Waker};

struct Bg {
    fut: Option<Pin<Box<dyn Future<Output = ()> + Send + 'static>>>,
    flag: Arc<WakeFlag>,
}

static BG: Mutex<Vec<Bg>> = Mutex::new(Vec::new());
static POLLS: AtomicU64 = AtomicU64::new(0);

pub fn reset() {
    BG.lock().unwrap_or_else(|e| e.into_inner()).clear();
    POLLS.store(0, Ordering::SeqCst);
}

pub fn spawn(fut: Pin<Box<dyn Future<Output = ()> + Send + 'static>>) {
    BG.lock().unwrap_or_else(|e| e.into_inner()).push(Bg {
        fut: Some(fut),
        flag: Arc::new(WakeFlag(AtomicBool::new(true))),
    });
}

/// number of background futures that have completed / are alive
pub fn background_alive() -> (usize, usize) {
    let g = BG.lock().unwrap_or_else(|e| e.into_inner());
    (g.iter().filter(|b| b.fut.is_none()).count(), g.iter().filter(|b| b.fut.is_some()).count())
}

/// Poll one woken background future (chosen by the run's choice source). Returns false if none is woken.
fn poll_one_bg() -> bool {
    // take the future out so that the list is not locked while polling (a poll may spawn)
    let (idx, mut fut, flag) = {
        let mut g = BG.lock().unwrap_or_else(|e| e.into_inner());
        let woken: Vec<usize> = (0..g.len()).filter(|&i| g[i].fut.is_some() && g[i].flag.0.load(Ordering::SeqCst)).collect();
        if woken.is_empty() {
            return false;
        }
        let k = if woken.len() == 1 { 0 } else { rt::choose(woken.len()) };
        let i = woken[k];
        g[i].flag.0.store(false, Ordering::SeqCst);
        (i, g[i].fut.take().unwrap(), g[i].flag.clone())
    };
    POLLS.fetch_add(1, Ordering::SeqCst);
    let waker = Waker::from(flag);
    let mut cx = Context::from_waker(&waker);
    let done = matches!(fut.as_mut().poll(&mut cx), Poll::Ready(()));
    let mut g = BG.lock().unwrap_or_else(|e| e.into_inner());
    if !done {
        g[idx].fut = Some(fut);
    }
    true
}

fn any_bg_woken() -> bool {
    let g = BG.lock().unwrap_or_else(|e| e.into_inner());
    g.iter().any(|b| b.fut.is_some() && b.flag.0.load(Ordering::SeqCst))
}

/// Run the background futures until none of them is woken (tokio's `run_until_stalled`).
pub fn run_until_stalled() {
    let mut guard = 0u32;
    while poll_one_bg() {
        rt::yield_fair();
        guard += 1;
        if guard > 100_000 {
            break;
        }
    }
}

/// Drive `fut` to completion; while it is pending the background futures get polled.
pub fn block_on<F: Future>(fut: F) -> F::Output {
    let mut fut = std::pin::pin!(fut);
    let flag = Arc::new(WakeFlag(AtomicBool::new(true)));
    let waker = Waker::from(flag.clone());
    let mut cx = Context::from_waker(&waker);
    loop {
        if flag.0.swap(false, Ordering::SeqCst) {
            if let Poll::Ready(v) = fut.as_mut().poll(&mut cx) {
                return v;
            }
        }
        // one scheduling point per executor turn (step accounting, other simulator tasks)
        rt::yield_fair();
        if poll_one_bg() {
            continue;
        }
        if flag.0.load(Ordering::SeqCst) {
            continue;
        }
        let f = flag.clone();
        rt::block("await-local", &move || f.0.load(Ordering::SeqCst) || any_bg_woken());
    }
}

/// A sleep on the virtual clock as a future (so that background futures run meanwhile).
pub struct Sleep {
    slot: Arc<rt::TimerSlot>,
}

pub fn sleep_ns(ns: u64) -> Sleep {
    let now = rt::now_ns().unwrap_or(0);
    let slot = Arc::new(rt::TimerSlot {
        deadline: AtomicU64::new(now.saturating_add(ns)),
        waker: Mutex::new(None),
    });
    rt::register_timer(slot.clone());
    Sleep { slot }
}

impl Future for Sleep {
    type Output = ();
    fn poll(self: Pin<&mut Self>, cx: &mut Context<'_>) -> Poll<()> {
        let now = rt::now_ns().unwrap_or(u64::MAX);
        let d = self.slot.deadline.load(Ordering::SeqCst);
        if now >= d {
            self.slot.deadline.store(u64::MAX, Ordering::SeqCst);
            Poll::Ready(())
        } else {
            *self.slot.waker.lock().unwrap_or_else(|e| e.into_inner()) = Some(cx.waker().clone());
            Poll::Pending
        }
    }
}
