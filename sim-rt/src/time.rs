//! Virtual wall clock: a newtype over `std::time::SystemTime` holding UNIX_EPOCH + virtual ns,
//! so `Time`/`StoreItem` keep their production size.  Outside a simulation it is the real clock.
use crate::rt;
use std::time::Duration;

#[derive(Copy, Clone, Eq, PartialEq, Ord, PartialOrd, Hash, Debug)]
pub struct SystemTime(std::time::SystemTime);

pub const UNIX_EPOCH: SystemTime = SystemTime(std::time::UNIX_EPOCH);

#[derive(Debug, Clone)]
pub struct SystemTimeError(Duration);

impl std::fmt::Display for SystemTimeError {
    fn fmt(&self, f: &mut std::fmt::Formatter<'_>) -> std::fmt::Result {
        write!(f, "second time provided was later than self")
    }
}
impl std::error::Error for SystemTimeError {}

impl SystemTime {
    pub const UNIX_EPOCH: SystemTime = UNIX_EPOCH;

    pub fn now() -> SystemTime {
        match rt::wall_read() {
            Some(ns) => SystemTime(std::time::UNIX_EPOCH + Duration::from_nanos(ns)),
            None => SystemTime(std::time::SystemTime::now()),
        }
    }
    pub fn duration_since(&self, earlier: SystemTime) -> Result<Duration, SystemTimeError> {
        self.0
            .duration_since(earlier.0)
            .map_err(|e| SystemTimeError(e.duration()))
    }
    pub fn elapsed(&self) -> Result<Duration, SystemTimeError> {
        SystemTime::now().duration_since(*self)
    }
    /// nanoseconds since the Unix epoch (harness side)
    pub fn as_ns(&self) -> u64 {
        self.0
            .duration_since(std::time::UNIX_EPOCH)
            .map(|d| d.as_nanos() as u64)
            .unwrap_or(0)
    }
}
