//! Drop-in replacements for the primitives stretto imports: parking_lot locks (thin wrappers
//! returning the real guards), crossbeam-channel (a simulator channel with the semantics
//! stretto uses), `select!`, `tick`, `thread::spawn`, `wg::WaitGroup`.

use crate::rt;
use std::collections::VecDeque;
use std::fmt;
use std::sync::atomic::Ordering;
use std::sync::{Arc, Mutex as StdMutex};
use std::time::Duration;

// ------------------------------------------------------------------------------------------
// Locks
// ------------------------------------------------------------------------------------------

/// `.0` is the real lock; `.1` counts writers that are blocked waiting for it.  parking_lot's
/// RwLock is writer-preferring: a new reader blocks while a writer is parked, even if the lock is
/// only read-locked (which is what makes a re-entrant `read()` a deadlock hazard).
pub struct RwLock<T>(pub parking_lot::RwLock<T>, pub std::sync::atomic::AtomicUsize);

impl<T> RwLock<T> {
    pub fn new(t: T) -> Self {
        RwLock(parking_lot::RwLock::new(t), std::sync::atomic::AtomicUsize::new(0))
    }
}

impl<T> RwLock<T> {
    #[track_caller]
    pub fn read(&self) -> parking_lot::RwLockReadGuard<'_, T> {
        if !rt::active() {
            return self.0.read();
        }
        rt::sched_point_throttled(rt::site_hash(std::panic::Location::caller()));
        loop {
            if self.1.load(Ordering::SeqCst) == 0 || rt::in_atomic() {
                if let Some(g) = self.0.try_read() {
                    rt::sched_point_throttled(rt::site_hash(std::panic::Location::caller()) ^ 0x1d);
                    return g;
                }
            }
            let l = &self.0;
            let w = &self.1;
            rt::block("rwlock.read", &move || !l.is_locked_exclusive() && w.load(Ordering::SeqCst) == 0);
        }
    }

    #[track_caller]
    pub fn write(&self) -> parking_lot::RwLockWriteGuard<'_, T> {
        if !rt::active() {
            return self.0.write();
        }
        rt::sched_point_throttled(rt::site_hash(std::panic::Location::caller()));
        let mut waiting = false;
        loop {
            if let Some(g) = self.0.try_write() {
                if waiting {
                    self.1.fetch_sub(1, Ordering::SeqCst);
                }
                rt::sched_point_throttled(rt::site_hash(std::panic::Location::caller()) ^ 0x1d);
                return g;
            }
            if !waiting {
                waiting = true;
                self.1.fetch_add(1, Ordering::SeqCst);
            }
            let l = &self.0;
            rt::block("rwlock.write", &move || !l.is_locked());
        }
    }
}

impl<T> RwLock<T> {
    #[track_caller]
    pub fn try_read(&self) -> Option<parking_lot::RwLockReadGuard<'_, T>> {
        if rt::active() {
            rt::sched_point_throttled(rt::site_hash(std::panic::Location::caller()));
            if self.1.load(Ordering::SeqCst) != 0 {
                return None; // a writer is queued (writer preference)
            }
        }
        self.0.try_read()
    }
    #[track_caller]
    pub fn try_write(&self) -> Option<parking_lot::RwLockWriteGuard<'_, T>> {
        if rt::active() {
            rt::sched_point_throttled(rt::site_hash(std::panic::Location::caller()));
        }
        self.0.try_write()
    }
}

impl<T: fmt::Debug> fmt::Debug for RwLock<T> {
    fn fmt(&self, f: &mut fmt::Formatter<'_>) -> fmt::Result {
        self.0.fmt(f)
    }
}

impl<T: Default> Default for RwLock<T> {
    fn default() -> Self {
        RwLock::new(T::default())
    }
}

pub struct Mutex<T: ?Sized>(pub parking_lot::Mutex<T>);

impl<T> Mutex<T> {
    pub fn new(t: T) -> Self {
        Mutex(parking_lot::Mutex::new(t))
    }
}

impl<T: ?Sized> Mutex<T> {
    #[track_caller]
    pub fn lock(&self) -> parking_lot::MutexGuard<'_, T> {
        if !rt::active() {
            return self.0.lock();
        }
        rt::maybe_stall_worker_at_lock();
        rt::sched_point_throttled(rt::site_hash(std::panic::Location::caller()));
        let site = rt::site_hash(std::panic::Location::caller());
        loop {
            if let Some(g) = self.0.try_lock() {
                // a thread can be preempted INSIDE its critical section as well: the others then
                // find the lock taken (they block, or their try_lock fails)
                rt::sched_point_throttled(site ^ 0x1d);
                return g;
            }
            let l = &self.0;
            rt::block("mutex.lock", &move || !l.is_locked());
        }
    }

    #[track_caller]
    pub fn try_lock(&self) -> Option<parking_lot::MutexGuard<'_, T>> {
        if rt::active() {
            let site = rt::site_hash(std::panic::Location::caller());
            rt::sched_point_throttled(site);
            let g = self.0.try_lock();
            if g.is_some() {
                rt::sched_point_throttled(site ^ 0x1d);
            }
            return g;
        }
        self.0.try_lock()
    }

    pub fn is_locked(&self) -> bool {
        self.0.is_locked()
    }
}

impl<T: ?Sized + fmt::Debug> fmt::Debug for Mutex<T> {
    fn fmt(&self, f: &mut fmt::Formatter<'_>) -> fmt::Result {
        self.0.fmt(f)
    }
}

// ------------------------------------------------------------------------------------------
// Threads
// ------------------------------------------------------------------------------------------

pub struct JoinHandle<T>(std::marker::PhantomData<T>);

/// `std::thread::spawn` replacement: the closure becomes a simulator task (kind Worker) named
/// after the calling source file.
#[track_caller]
pub fn spawn<F, T>(f: F) -> JoinHandle<T>
where
    F: FnOnce() -> T + Send + 'static,
    T: Send + 'static,
{
    let loc = std::panic::Location::caller();
    let file = loc.file();
    let name = if file.contains("policy") {
        "policy_worker"
    } else if file.contains("cache") {
        "processor"
    } else {
        "worker"
    };
    rt::spawn_task(name, rt::Kind::Worker, move || {
        let _ = f();
    });
    JoinHandle(std::marker::PhantomData)
}

// ------------------------------------------------------------------------------------------
// Time for the tick channel
// ------------------------------------------------------------------------------------------

#[derive(Copy, Clone, Debug, PartialEq, Eq, PartialOrd, Ord)]
pub struct Instant(pub u64);

// ------------------------------------------------------------------------------------------
// Channels
// ------------------------------------------------------------------------------------------

#[derive(PartialEq, Eq, Clone, Copy)]
pub struct SendError<T>(pub T);
#[derive(PartialEq, Eq, Clone, Copy, Debug)]
pub struct RecvError;
#[derive(PartialEq, Eq, Clone, Copy)]
pub enum TrySendError<T> {
    Full(T),
    Disconnected(T),
}
#[derive(PartialEq, Eq, Clone, Copy, Debug)]
pub enum TryRecvError {
    Empty,
    Disconnected,
}

impl<T> fmt::Debug for SendError<T> {
    fn fmt(&self, f: &mut fmt::Formatter<'_>) -> fmt::Result {
        "SendError(..)".fmt(f)
    }
}
impl<T> fmt::Display for SendError<T> {
    fn fmt(&self, f: &mut fmt::Formatter<'_>) -> fmt::Result {
        "sending on a disconnected channel".fmt(f)
    }
}
impl<T> fmt::Debug for TrySendError<T> {
    fn fmt(&self, f: &mut fmt::Formatter<'_>) -> fmt::Result {
        match self {
            TrySendError::Full(..) => "Full(..)".fmt(f),
            TrySendError::Disconnected(..) => "Disconnected(..)".fmt(f),
        }
    }
}
impl<T> fmt::Display for TrySendError<T> {
    fn fmt(&self, f: &mut fmt::Formatter<'_>) -> fmt::Result {
        match self {
            TrySendError::Full(..) => "sending on a full channel".fmt(f),
            TrySendError::Disconnected(..) => "sending on a disconnected channel".fmt(f),
        }
    }
}
impl fmt::Display for RecvError {
    fn fmt(&self, f: &mut fmt::Formatter<'_>) -> fmt::Result {
        "receiving on an empty and disconnected channel".fmt(f)
    }
}
impl<T> std::error::Error for SendError<T> {}
impl std::error::Error for RecvError {}

enum Flavor {
    /// bounded FIFO (cap ≥ 1)
    Bounded(usize),
    Unbounded,
    /// rendezvous: a sender posts an offer and blocks until a receiver takes it
    Zero,
    /// crossbeam `tick`: ready iff now ≥ deadline; on receipt deadline = now + period
    Tick { period: u64 },
}

struct ChanSt<T> {
    q: VecDeque<T>,
    /// zero-capacity offers: (offer id, message)
    offers: VecDeque<(u64, T)>,
    next_offer: u64,
    taken: Vec<u64>,
    senders: usize,
    receivers: usize,
}

pub struct Chan<T> {
    st: StdMutex<ChanSt<T>>,
    flavor: Flavor,
    tick_slot: Option<Arc<rt::TimerSlot>>,
    mk_tick: Option<fn(u64) -> T>,
}

impl<T> Chan<T> {
    fn lock(&self) -> std::sync::MutexGuard<'_, ChanSt<T>> {
        self.st.lock().unwrap_or_else(|e| e.into_inner())
    }
    fn now() -> u64 {
        rt::now_ns().unwrap_or_else(real_now_ns)
    }
    fn recv_ready(&self) -> bool {
        match self.flavor {
            Flavor::Tick { .. } => Self::now() >= self.tick_slot.as_ref().unwrap().deadline.load(Ordering::SeqCst),
            Flavor::Zero => {
                let s = self.lock();
                !s.offers.is_empty() || s.senders == 0
            }
            _ => {
                let s = self.lock();
                !s.q.is_empty() || s.senders == 0
            }
        }
    }
    fn send_ready(&self) -> bool {
        let s = self.lock();
        if s.receivers == 0 {
            return true;
        }
        match self.flavor {
            Flavor::Bounded(c) => s.q.len() < c,
            Flavor::Unbounded => true,
            // a rendezvous send in a `select!` with other arms is not used by stretto; it is
            // never "ready" here (a blocking `send` goes through `Sender::send`)
            Flavor::Zero => false,
            Flavor::Tick { .. } => false,
        }
    }
    fn do_try_recv(&self) -> Result<T, TryRecvError> {
        match self.flavor {
            Flavor::Tick { period } => {
                let now = Self::now();
                let slot = self.tick_slot.as_ref().unwrap();
                let d = slot.deadline.load(Ordering::SeqCst);
                if now < d {
                    return Err(TryRecvError::Empty);
                }
                slot.deadline.store(now + period, Ordering::SeqCst);
                crate::obs::emit_tick(d);
                Ok((self.mk_tick.expect("tick maker"))(d))
            }
            Flavor::Zero => {
                let mut s = self.lock();
                if let Some((id, m)) = s.offers.pop_front() {
                    s.taken.push(id);
                    Ok(m)
                } else if s.senders == 0 {
                    Err(TryRecvError::Disconnected)
                } else {
                    Err(TryRecvError::Empty)
                }
            }
            _ => {
                let mut s = self.lock();
                if let Some(m) = s.q.pop_front() {
                    Ok(m)
                } else if s.senders == 0 {
                    Err(TryRecvError::Disconnected)
                } else {
                    Err(TryRecvError::Empty)
                }
            }
        }
    }
    fn do_try_send(&self, m: T) -> Result<(), TrySendError<T>> {
        let mut s = self.lock();
        if s.receivers == 0 {
            return Err(TrySendError::Disconnected(m));
        }
        match self.flavor {
            Flavor::Bounded(c) => {
                if s.q.len() < c {
                    s.q.push_back(m);
                    Ok(())
                } else {
                    Err(TrySendError::Full(m))
                }
            }
            Flavor::Unbounded => {
                s.q.push_back(m);
                Ok(())
            }
            Flavor::Zero | Flavor::Tick { .. } => Err(TrySendError::Full(m)),
        }
    }
}

fn real_now_ns() -> u64 {
    std::time::SystemTime::now()
        .duration_since(std::time::UNIX_EPOCH)
        .map(|d| d.as_nanos() as u64)
        .unwrap_or(0)
}

pub struct Sender<T> {
    ch: Arc<Chan<T>>,
}
pub struct Receiver<T> {
    ch: Arc<Chan<T>>,
}

impl<T> Clone for Sender<T> {
    fn clone(&self) -> Self {
        self.ch.lock().senders += 1;
        Sender { ch: self.ch.clone() }
    }
}
impl<T> Clone for Receiver<T> {
    fn clone(&self) -> Self {
        self.ch.lock().receivers += 1;
        Receiver { ch: self.ch.clone() }
    }
}
impl<T> Drop for Sender<T> {
    fn drop(&mut self) {
        let mut s = self.ch.lock();
        s.senders -= 1;
    }
}
impl<T> Drop for Receiver<T> {
    fn drop(&mut self) {
        let dropped: Vec<T>;
        {
            let mut s = self.ch.lock();
            s.receivers -= 1;
            // crossbeam 0.5.17: the list (unbounded) flavour discards queued messages eagerly
            // when the last receiver goes away; the array (bounded) flavour keeps them until
            // the channel itself is dropped with the last handle.
            if s.receivers == 0 && matches!(self.ch.flavor, Flavor::Unbounded) {
                dropped = s.q.drain(..).collect();
            } else {
                dropped = Vec::new();
            }
        }
        drop(dropped);
    }
}

fn mk<T>(flavor: Flavor) -> (Sender<T>, Receiver<T>) {
    let ch = Arc::new(Chan {
        st: StdMutex::new(ChanSt {
            q: VecDeque::new(),
            offers: VecDeque::new(),
            next_offer: 0,
            taken: Vec::new(),
            senders: 1,
            receivers: 1,
        }),
        flavor,
        tick_slot: None,
        mk_tick: None,
    });
    (Sender { ch: ch.clone() }, Receiver { ch })
}

pub fn bounded<T>(cap: usize) -> (Sender<T>, Receiver<T>) {
    if cap == 0 {
        mk(Flavor::Zero)
    } else {
        mk(Flavor::Bounded(cap))
    }
}

pub fn unbounded<T>() -> (Sender<T>, Receiver<T>) {
    mk(Flavor::Unbounded)
}

/// crossbeam's `tick`: first delivery at now + d; each receipt re-arms at (receipt time) + d.
pub fn tick(d: Duration) -> Receiver<Instant> {
    let period = d.as_nanos() as u64;
    let now = Chan::<Instant>::now();
    let slot = Arc::new(rt::TimerSlot {
        deadline: std::sync::atomic::AtomicU64::new(now + period),
        waker: StdMutex::new(None),
    });
    rt::register_timer(slot.clone());
    let ch = Arc::new(Chan {
        st: StdMutex::new(ChanSt {
            q: VecDeque::new(),
            offers: VecDeque::new(),
            next_offer: 0,
            taken: Vec::new(),
            senders: 1, // never disconnects
            receivers: 1,
        }),
        flavor: Flavor::Tick { period },
        tick_slot: Some(slot),
        mk_tick: Some(Instant as fn(u64) -> Instant),
    });
    Receiver { ch }
}

impl<T> Sender<T> {
    pub fn try_send(&self, m: T) -> Result<(), TrySendError<T>> {
        rt::sched_point_at(0x7501);
        self.ch.do_try_send(m)
    }

    /// Blocking send.
    pub fn send(&self, m: T) -> Result<(), SendError<T>> {
        rt::sched_point_at(0x7502);
        match self.ch.flavor {
            Flavor::Zero => {
                let id;
                {
                    let mut s = self.ch.lock();
                    if s.receivers == 0 {
                        return Err(SendError(m));
                    }
                    id = s.next_offer;
                    s.next_offer += 1;
                    s.offers.push_back((id, m));
                }
                let ch = &self.ch;
                rt::block("chan.send(rendezvous)", &move || {
                    let s = ch.lock();
                    s.taken.contains(&id) || s.receivers == 0
                });
                let mut s = self.ch.lock();
                if let Some(p) = s.taken.iter().position(|x| *x == id) {
                    s.taken.swap_remove(p);
                    Ok(())
                } else {
                    // disconnected: take the message back
                    let p = s.offers.iter().position(|(i, _)| *i == id).expect("offer present");
                    let (_, m) = s.offers.remove(p).unwrap();
                    Err(SendError(m))
                }
            }
            _ => {
                let mut m = m;
                loop {
                    match self.ch.do_try_send(m) {
                        Ok(()) => return Ok(()),
                        Err(TrySendError::Disconnected(x)) => return Err(SendError(x)),
                        Err(TrySendError::Full(x)) => {
                            m = x;
                            let ch = &self.ch;
                            rt::block("chan.send(full)", &move || ch.send_ready());
                        }
                    }
                }
            }
        }
    }

    pub fn len(&self) -> usize {
        self.ch.lock().q.len()
    }
    pub fn is_empty(&self) -> bool {
        self.len() == 0
    }
}

impl<T> Receiver<T> {
    pub fn try_recv(&self) -> Result<T, TryRecvError> {
        rt::sched_point_at(0x7503);
        let r = self.ch.do_try_recv();
        r
    }

    pub fn recv(&self) -> Result<T, RecvError> {
        rt::sched_point_at(0x7504);
        loop {
            match self.ch.do_try_recv() {
                Ok(m) => {
                                return Ok(m);
                }
                Err(TryRecvError::Disconnected) => return Err(RecvError),
                Err(TryRecvError::Empty) => {
                    let ch = &self.ch;
                    rt::block("chan.recv", &move || ch.recv_ready());
                }
            }
        }
    }

    pub fn len(&self) -> usize {
        self.ch.lock().q.len()
    }
    pub fn is_empty(&self) -> bool {
        self.len() == 0
    }
}

// ------------------------------------------------------------------------------------------
// select!
// ------------------------------------------------------------------------------------------

pub trait Readiness {
    fn ready(&self) -> bool;
}

struct RecvOp<T>(Arc<Chan<T>>);
struct SendOp<T>(Arc<Chan<T>>);
impl<T> Readiness for RecvOp<T> {
    fn ready(&self) -> bool {
        self.0.recv_ready()
    }
}
impl<T> Readiness for SendOp<T> {
    fn ready(&self) -> bool {
        self.0.send_ready()
    }
}

/// Accept `rx`, `&rx`, `&&rx` … in `recv(..)` / `send(..)` like crossbeam does.
pub trait AsReceiver<T> {
    fn as_receiver(&self) -> &Receiver<T>;
}
impl<T> AsReceiver<T> for Receiver<T> {
    fn as_receiver(&self) -> &Receiver<T> {
        self
    }
}
impl<T, R: AsReceiver<T>> AsReceiver<T> for &R {
    fn as_receiver(&self) -> &Receiver<T> {
        (**self).as_receiver()
    }
}
pub trait AsSender<T> {
    fn as_sender(&self) -> &Sender<T>;
}
impl<T> AsSender<T> for Sender<T> {
    fn as_sender(&self) -> &Sender<T> {
        self
    }
}
impl<T, R: AsSender<T>> AsSender<T> for &R {
    fn as_sender(&self) -> &Sender<T> {
        (**self).as_sender()
    }
}

pub struct Sel<'a> {
    ops: Vec<Box<dyn Readiness + 'a>>,
}

impl<'a> Sel<'a> {
    pub fn new() -> Self {
        Sel { ops: Vec::new() }
    }
    pub fn add_recv<T: 'a, R: AsReceiver<T>>(&mut self, r: &R) {
        self.ops.push(Box::new(RecvOp(r.as_receiver().ch.clone())));
    }
    pub fn add_send<T: 'a, S: AsSender<T>>(&mut self, s: &S) {
        self.ops.push(Box::new(SendOp(s.as_sender().ch.clone())));
    }
    /// Returns the index of the operation to perform (uniformly chosen among the ready ones
    /// by the run's choice source), or None for the `default` arm.
    pub fn wait(&self, has_default: bool) -> Option<usize> {
        rt::sched_point_at(0x5e1ec7);
        loop {
            let ready: Vec<usize> = (0..self.ops.len()).filter(|&i| self.ops[i].ready()).collect();
            if !ready.is_empty() {
                rt::count_select();
                let k = if ready.len() == 1 { 0 } else { rt::choose_arm(ready.len()) };
                return Some(ready[k]);
            }
            if has_default {
                return None;
            }
            let ops = &self.ops;
            // SAFETY of Sync: predicates are only evaluated by the baton holder.
            rt::block("select", &move || ops.iter().any(|o| o.ready()));
        }
    }
    pub fn fin_recv<T, R: AsReceiver<T>>(r: &R) -> Result<T, RecvError> {
        let rx = r.as_receiver();
        let res = match rx.ch.do_try_recv() {
            Ok(m) => {
                if !matches!(rx.ch.flavor, Flavor::Tick { .. }) {
                    rt::maybe_stall_after_recv();
                }
                Ok(m)
            }
            Err(TryRecvError::Disconnected) => Err(RecvError),
            Err(TryRecvError::Empty) => unreachable!("select: recv arm chosen but channel empty"),
        };
        res
    }
    pub fn fin_send<T, S: AsSender<T>>(s: &S, m: T) -> Result<(), SendError<T>> {
        match s.as_sender().ch.do_try_send(m) {
            Ok(()) => Ok(()),
            Err(TrySendError::Disconnected(m)) => Err(SendError(m)),
            Err(TrySendError::Full(_)) => unreachable!("select: send arm chosen but channel full"),
        }
    }
}

impl<'a> Default for Sel<'a> {
    fn default() -> Self {
        Self::new()
    }
}

/// `crossbeam_channel::select!` replacement accepting the surface syntax stretto uses:
/// `recv(r) -> pat => body,` / `send(s, msg) -> pat => body,` / `default => body`.
#[macro_export]
macro_rules! select {
    ($($tokens:tt)*) => {{
        #[allow(unused_mut)]
        let mut __sel = $crate::sync::Sel::new();
        $crate::__select_reg!(__sel; $($tokens)*);
        let __has_default = $crate::__select_has_default!($($tokens)*);
        let __k = __sel.wait(__has_default);
        drop(__sel);
        $crate::__select_run!(__k; (0usize); $($tokens)*)
    }};
}

#[doc(hidden)]
#[macro_export]
macro_rules! __select_reg {
    ($sel:ident; ) => {};
    ($sel:ident; recv($r:expr) -> $p:pat => $body:expr , $($rest:tt)*) => {
        $sel.add_recv(&$r);
        $crate::__select_reg!($sel; $($rest)*);
    };
    ($sel:ident; recv($r:expr) -> $p:pat => $body:expr) => {
        $sel.add_recv(&$r);
    };
    ($sel:ident; send($s:expr, $m:expr) -> $p:pat => $body:expr , $($rest:tt)*) => {
        $sel.add_send(&$s);
        $crate::__select_reg!($sel; $($rest)*);
    };
    ($sel:ident; send($s:expr, $m:expr) -> $p:pat => $body:expr) => {
        $sel.add_send(&$s);
    };
    ($sel:ident; default => $body:expr , $($rest:tt)*) => {
        $crate::__select_reg!($sel; $($rest)*);
    };
    ($sel:ident; default => $body:expr) => {};
}

#[doc(hidden)]
#[macro_export]
macro_rules! __select_has_default {
    () => { false };
    (recv($r:expr) -> $p:pat => $body:expr , $($rest:tt)*) => { $crate::__select_has_default!($($rest)*) };
    (recv($r:expr) -> $p:pat => $body:expr) => { false };
    (send($s:expr, $m:expr) -> $p:pat => $body:expr , $($rest:tt)*) => { $crate::__select_has_default!($($rest)*) };
    (send($s:expr, $m:expr) -> $p:pat => $body:expr) => { false };
    (default => $body:expr , $($rest:tt)*) => { true };
    (default => $body:expr) => { true };
}

#[doc(hidden)]
#[macro_export]
macro_rules! __select_run {
    ($k:ident; ($i:expr); ) => { unreachable!("select: no arm") };
    ($k:ident; ($i:expr); recv($r:expr) -> $p:pat => $body:expr , $($rest:tt)*) => {
        if $k == Some($i) {
            let $p = $crate::sync::Sel::fin_recv(&$r);
            $body
        } else {
            $crate::__select_run!($k; ($i + 1usize); $($rest)*)
        }
    };
    ($k:ident; ($i:expr); recv($r:expr) -> $p:pat => $body:expr) => {
        $crate::__select_run!($k; ($i); recv($r) -> $p => $body , )
    };
    ($k:ident; ($i:expr); send($s:expr, $m:expr) -> $p:pat => $body:expr , $($rest:tt)*) => {
        if $k == Some($i) {
            let $p = $crate::sync::Sel::fin_send(&$s, $m);
            $body
        } else {
            $crate::__select_run!($k; ($i + 1usize); $($rest)*)
        }
    };
    ($k:ident; ($i:expr); send($s:expr, $m:expr) -> $p:pat => $body:expr) => {
        $crate::__select_run!($k; ($i); send($s, $m) -> $p => $body , )
    };
    ($k:ident; ($i:expr); default => $body:expr , $($rest:tt)*) => {
        if $k.is_none() {
            $body
        } else {
            $crate::__select_run!($k; ($i); $($rest)*)
        }
    };
    ($k:ident; ($i:expr); default => $body:expr) => {
        $crate::__select_run!($k; ($i); default => $body , )
    };
}

// ------------------------------------------------------------------------------------------
// WaitGroup
// ------------------------------------------------------------------------------------------

/// Thin wrapper over the real `wg::WaitGroup`; `wait()` first blocks in the simulator until
/// the counter is zero, so the real wait never blocks.
#[derive(Clone, Debug, Default)]
pub struct WaitGroup(wg::WaitGroup);

impl WaitGroup {
    pub fn new() -> Self {
        WaitGroup(wg::WaitGroup::new())
    }
    #[track_caller]
    pub fn add(&self, n: usize) -> Self {
        rt::sched_point_throttled(rt::site_hash(std::panic::Location::caller()));
        WaitGroup(self.0.add(n))
    }
    #[track_caller]
    pub fn done(&self) -> usize {
        rt::sched_point_throttled(rt::site_hash(std::panic::Location::caller()));
        self.0.done()
    }
    pub fn waitings(&self) -> usize {
        self.0.waitings()
    }
    pub fn wait(&self) {
        if rt::active() {
            rt::sched_point_at(0x3a17);
            let w = &self.0;
            rt::block("waitgroup.wait", &move || w.waitings() == 0);
        }
        self.0.wait()
    }
}

// ------------------------------------------------------------------------------------------
// AtomicBool with scheduling points (the `is_closed` flags): a check-then-act on a plain
// atomic is an interleaving the simulator must be able to split.
// ------------------------------------------------------------------------------------------

#[derive(Debug, Default)]
pub struct AtomicBool(std::sync::atomic::AtomicBool);

impl AtomicBool {
    pub const fn new(v: bool) -> Self {
        AtomicBool(std::sync::atomic::AtomicBool::new(v))
    }
    #[track_caller]
    pub fn load(&self, o: Ordering) -> bool {
        rt::sched_point_throttled(rt::site_hash(std::panic::Location::caller()));
        self.0.load(o)
    }
    #[track_caller]
    pub fn store(&self, v: bool, o: Ordering) {
        rt::sched_point_throttled(rt::site_hash(std::panic::Location::caller()));
        self.0.store(v, o)
    }
    #[track_caller]
    pub fn swap(&self, v: bool, o: Ordering) -> bool {
        rt::sched_point_throttled(rt::site_hash(std::panic::Location::caller()));
        self.0.swap(v, o)
    }
    #[track_caller]
    pub fn compare_exchange(&self, cur: bool, new: bool, s: Ordering, f: Ordering) -> Result<bool, bool> {
        rt::sched_point_throttled(rt::site_hash(std::panic::Location::caller()));
        self.0.compare_exchange(cur, new, s, f)
    }
}

/// Counters (metrics): every access is a (throttled) scheduling point, so that a read-modify-
/// write spelled as separate load and store can be interleaved by another task.
#[derive(Debug, Default)]
pub struct AtomicU64(std::sync::atomic::AtomicU64);

impl AtomicU64 {
    pub const fn new(v: u64) -> Self {
        AtomicU64(std::sync::atomic::AtomicU64::new(v))
    }
    #[track_caller]
    pub fn load(&self, o: Ordering) -> u64 {
        rt::sched_point_throttled(rt::site_hash(std::panic::Location::caller()));
        self.0.load(o)
    }
    #[track_caller]
    pub fn store(&self, v: u64, o: Ordering) {
        rt::sched_point_throttled(rt::site_hash(std::panic::Location::caller()));
        self.0.store(v, o)
    }
    #[track_caller]
    pub fn swap(&self, v: u64, o: Ordering) -> u64 {
        rt::sched_point_throttled(rt::site_hash(std::panic::Location::caller()));
        self.0.swap(v, o)
    }
    #[track_caller]
    pub fn fetch_add(&self, v: u64, o: Ordering) -> u64 {
        rt::sched_point_throttled(rt::site_hash(std::panic::Location::caller()));
        self.0.fetch_add(v, o)
    }
    #[track_caller]
    pub fn fetch_sub(&self, v: u64, o: Ordering) -> u64 {
        rt::sched_point_throttled(rt::site_hash(std::panic::Location::caller()));
        self.0.fetch_sub(v, o)
    }
    #[track_caller]
    pub fn compare_exchange(&self, cur: u64, new: u64, s: Ordering, f: Ordering) -> Result<u64, u64> {
        rt::sched_point_throttled(rt::site_hash(std::panic::Location::caller()));
        self.0.compare_exchange(cur, new, s, f)
    }
}
