//! Observation plumbing: guarded hooks inside stretto report plain-data events here; the
//! harness registers a sink.  No event is emitted when no sink is registered.
use std::sync::RwLock;

#[derive(Clone, Debug)]
pub enum Obs {
    /// `policy.add` entered (under the policy mutex)
    AddEnter { key: u64, cost: i64, max_cost: i64, used: i64, key_costs: Vec<(u64, i64)>, inc_est: i64 },
    /// one eviction round: the sample after `fill_sample` with the estimate of each candidate
    AddRound { room: i64, sample: Vec<(u64, i64, i64)> },
    /// `policy.add` returns
    AddExit { key: u64, cost: i64, added: bool, victims: Option<Vec<(u64, i64)>>, max_cost: i64, used: i64, key_costs: Vec<(u64, i64)> },
    /// a get-batch handed to the policy: `kept` as reported by the push
    Push { keys: Vec<u64>, kept: bool, queue_len: usize, closed: bool },
    /// an in-place cost change of a charged key (`SampledLFU::update`)
    CostUpdate { key: u64, prev: i64, cost: i64 },
    /// `policy.clear()` runs (under the policy mutex)
    PolicyCleared,
    /// the cleanup tick that became due at `due_ns` was taken by the processor's event loop
    TickTaken { due_ns: u64 },
    /// the policy worker applied a batch
    Applied { keys: Vec<u64> },
}

type Sink = Box<dyn Fn(Obs) + Send + Sync>;
static SINK: RwLock<Option<Sink>> = RwLock::new(None);

pub fn set_sink(f: Sink) {
    *SINK.write().unwrap_or_else(|e| e.into_inner()) = Some(f);
}

/// Runs with a hundred thousand charged entries switch the observers off: every admission event
/// carries the full table of charges.
static MUTED: std::sync::atomic::AtomicBool = std::sync::atomic::AtomicBool::new(false);

pub fn set_muted(m: bool) {
    MUTED.store(m, std::sync::atomic::Ordering::SeqCst);
}

pub fn enabled() -> bool {
    !MUTED.load(std::sync::atomic::Ordering::SeqCst) && SINK.read().map(|g| g.is_some()).unwrap_or(false)
}

pub fn emit(o: Obs) {
    if MUTED.load(std::sync::atomic::Ordering::SeqCst) {
        return;
    }
    if let Ok(g) = SINK.read() {
        if let Some(f) = g.as_ref() {
            f(o)
        }
    }
}

/// Tick events are only of interest to the starvation rule; a clock jump of hours makes an
/// interval timer fire a hundred thousand times, so they are off unless asked for.
pub static TICK_EVENTS: std::sync::atomic::AtomicBool = std::sync::atomic::AtomicBool::new(false);

pub fn emit_tick(due_ns: u64) {
    if TICK_EVENTS.load(std::sync::atomic::Ordering::SeqCst) {
        emit(Obs::TickTaken { due_ns });
    }
}
