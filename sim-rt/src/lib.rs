//! Deterministic-simulation runtime for stretto (see /verif/DESIGN.md §2).
pub mod rt;
pub mod sync;
pub mod time;
pub mod timer;
pub mod obs;
pub mod local;
pub mod axync;
