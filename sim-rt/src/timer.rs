//! `async_io::Timer::interval` replacement on the virtual clock.  Same catch-up rule as
//! async-io's `Timer::poll_next`: `when += period` on every firing, so after a stall it fires
//! repeatedly until it has caught up.
use crate::rt;
use std::pin::Pin;
use std::sync::atomic::{AtomicU64, Ordering};
use std::sync::{Arc, Mutex};
use std::task::{Context, Poll};
use std::time::Duration;

pub struct Timer {
    slot: Arc<rt::TimerSlot>,
    period: u64,
}

impl Timer {
    pub fn interval(period: Duration) -> Timer {
        let p = period.as_nanos() as u64;
        let now = rt::now_ns().unwrap_or(0);
        let slot = Arc::new(rt::TimerSlot {
            deadline: AtomicU64::new(now.saturating_add(p)),
            waker: Mutex::new(None),
        });
        rt::register_timer(slot.clone());
        Timer { slot, period: p }
    }
}

impl futures_core::Stream for Timer {
    type Item = crate::sync::Instant;
    fn poll_next(self: Pin<&mut Self>, cx: &mut Context<'_>) -> Poll<Option<Self::Item>> {
        let now = rt::now_ns().unwrap_or(0);
        let when = self.slot.deadline.load(Ordering::SeqCst);
        if now >= when {
            self.slot
                .deadline
                .store(when.saturating_add(self.period), Ordering::SeqCst);
            *self.slot.waker.lock().unwrap_or_else(|e| e.into_inner()) = None;
            crate::obs::emit_tick(when);
            Poll::Ready(Some(crate::sync::Instant(when)))
        } else {
            *self.slot.waker.lock().unwrap_or_else(|e| e.into_inner()) = Some(cx.waker().clone());
            Poll::Pending
        }
    }
}
