#!/bin/sh
# Sensitivity self-test: applies each mutant of /verif/mutants/mutants.py to a scratch copy of
# /repo (never to /repo), rebuilds the harness against the copy and runs the owning checks.
# Results: /verif/mutants/RESULTS.md.  Scratch space is removed at the end.
set -u
S=${MUT_SCRATCH:-/tmp/stretto-mut}
rm -rf "$S"; mkdir -p "$S"
rsync -a --exclude target --exclude .git /repo/ "$S/repo/"
rsync -a --exclude target --exclude .git --exclude .work --exclude replays --exclude evidence /verif/ "$S/verif/"
mkdir -p "$S/verif/replays" "$S/verif/evidence"
sed -i "s#/repo/src/lib.rs#$S/repo/src/lib.rs#" "$S/verif/shadow/Cargo.toml"
sed -i "s#path = \"/repo\"#path = \"$S/repo\"#" "$S/verif/miri-harness/Cargo.toml"
export CARGO_TARGET_DIR="$S/target" CARGO_NET_OFFLINE=true DST_VERIF_DIR="$S/verif"
python3 - "$S" "${1:-}" <<'PY'
import sys, subprocess, os, importlib.util, json, time
S=sys.argv[1]; only=sys.argv[2]
spec=importlib.util.spec_from_file_location("m","/verif/mutants/mutants.py"); m=importlib.util.module_from_spec(spec); spec.loader.exec_module(m)
def build():
    r=subprocess.run(["cargo","build","--release","--offline","-p","dst"],cwd=S+"/verif",capture_output=True,text=True)
    return r.returncode==0, r.stderr[-1500:]
ok,err=build()
assert ok, err
rows=[]
for (name,f,old,new,checks,control) in m.M:
    if only and only not in name: continue
    path=S+"/repo/"+f
    src=open(path).read()
    if new is None:
        # special: drop the on_exit call of the Update path (first occurrence only)
        old2="                    UpdateResult::Update(v) => {\n                        self.callback.on_exit(Some(v));"
        new2="                    UpdateResult::Update(v) => {\n                        drop(v);"
        assert src.count(old2)>=1, name
        mutated=src.replace(old2,new2,1)
    else:
        assert src.count(old)>=1, ("pattern not found", name)
        if name.endswith("@2"):
            # second occurrence (the async half of a macro-duplicated body)
            i=src.index(old); j=src.index(old,i+len(old))
            mutated=src[:j]+new+src[j+len(old):]
        else:
            mutated=src.replace(old,new,1)
    open(path,"w").write(mutated)
    ok,err=build()
    res={}
    if not ok:
        rows.append((name,"BUILD-FAILED",err[-300:].replace("\n"," "),control)); open(path,"w").write(src); continue
    for c in checks:
        t=time.time()
        r=subprocess.run([S+"/target/release/dst","check",c,"--tier","quick"],cwd=S+"/verif",capture_output=True,text=True,env=dict(os.environ,DST_RUNS=os.environ.get("MUT_RUNS","20000"),DST_NO_DEFAULT_FEATURES_STAGE="1"))
        rules=sorted(set(l.split("rule=")[1].split(" ")[0] for l in r.stdout.splitlines() if l.strip().startswith("rule=")))
        res[c]=(r.returncode, rules, round(time.time()-t,1))
    open(path,"w").write(src)
    verdict = "ok" if ((not control and any(v[0]==1 for v in res.values())) or (control and all(v[0]==0 for v in res.values()))) else "MISSED" if not control else "FALSE-ALARM"
    rows.append((name,verdict,res,control))
    print(name,verdict,res,flush=True)
with open("/verif/mutants/RESULTS.md","a" if only else "w") as fh:
    if not only:
        fh.write("# Sensitivity results (tools/mutants.sh)\n\n| mutant | expectation | verdict | checks (exit code, rules fired, seconds) |\n|---|---|---|---|\n")
    for (name,verdict,res,control) in rows:
        fh.write("| %s | %s | %s | %s |\n"%(name,"control: must stay green" if control else "must go red",verdict,json.dumps(res)))
PY
rc=$?
rm -rf "$S"
exit $rc
