#!/bin/sh
# Full quick pass from /verif against /repo itself: rewrites every evidence file, validates
# MANIFEST.json and the evidence against their schemas. Exit 0 only if everything is green.
cd /verif || exit 2
rc=0
for p in C01 C02 C03 C04 C05 C06 C07 C08 C09 C10 C11 C12 C13 C15 C16 C17 C18 C19 C20; do
  ./dst check $p --tier quick > /tmp/final-$p.log 2>&1
  c=$?
  tail -1 /tmp/final-$p.log | cut -c1-220
  if [ $c -ne 0 ]; then rc=1; grep "^VIOLATION\|^HARNESS\|rule=" /tmp/final-$p.log | head -5; fi
done
python3-vt - <<'PY' || rc=1
import json,jsonschema,glob
jsonschema.validate(json.load(open('/verif/MANIFEST.json')), json.load(open('/root/.vp/MANIFEST.schema.json')))
es=json.load(open('/root/.vp/EVIDENCE.schema.json'))
m=json.load(open('/verif/MANIFEST.json'))
for c in m['checks']:
    e=json.load(open(c['evidence_file']))
    jsonschema.validate(e, es)
    assert e['property_id']==c['property_id'] and e['level']==c['level_claimed']['category'], c['property_id']
print('manifest + %d evidence files valid'%len(m['checks']))
PY
exit $rc
