#!/usr/bin/env python3
"""Statement-deletion mutation analysis (sampled): a single-line statement that calls something
for its effect (self.x.y(..); / x.y(..)?; / let _ = ..;) is removed from a scratch copy of /repo;
the mutant is judged by all 19 checks at reduced size (first kill stops) and by the pinned suite.
Usage: tools/mutation2.py <n_mutants> [seed].  Results: mutants/MUTATION2.md"""
import os, re, sys, random, subprocess, shutil
N=int(sys.argv[1]) if len(sys.argv)>1 else 60
SEED=int(sys.argv[2]) if len(sys.argv)>2 else 1
S='/tmp/stretto-mutation2'
FILES=['src/policy.rs','src/store.rs','src/ttl.rs','src/cache.rs','src/cache/sync.rs','src/cache/async.rs','src/ring.rs','src/sketch.rs','src/policy/sync.rs','src/policy/async.rs','src/metrics.rs','src/bbloom.rs']
PAT=re.compile(r'^\s*(let _ = )?(self|inner|data|m|wg|item|victim|policy|store|[a-z_]+)(\.[a-z_0-9]+)+(\(.*\))(\?|\.await|\.await\?)?;\s*$')
def candidates():
    out=[]
    for f in FILES:
        lines=open('/repo/'+f).read().split('\n')
        in_test=False; skip_next=False
        for i,l in enumerate(lines):
            st=l.strip()
            if st.startswith('#[cfg(test)]') or st.startswith('mod test'): in_test=True
            if in_test: continue
            if skip_next: skip_next=False; continue
            if 'transparencies_stretto_verif' in l:
                if st.startswith('#[cfg(transparencies_stretto_verif)]'): skip_next=True
                continue
            if 'crate::verif::' in l or 'verif_' in l or 'tracing::' in l or st.startswith('//') : continue
            if st.startswith('let ') and not st.startswith('let _ ='): continue
            if PAT.match(l): out.append((f,i))
    return out
def sh(cmd,cwd=None,env=None,timeout=None):
    try:
        r=subprocess.run(cmd,cwd=cwd,env=env,capture_output=True,text=True,timeout=timeout)
        return r.returncode,r.stdout+r.stderr
    except subprocess.TimeoutExpired:
        return 124,'timeout'
def main():
    random.seed(SEED)
    c=candidates(); total=len(c)
    random.shuffle(c); pick=c[:N]
    shutil.rmtree(S,ignore_errors=True); os.makedirs(S)
    sh(['rsync','-a','--exclude','target','--exclude','.git','/repo/',S+'/repo/'])
    sh(['rsync','-a','--exclude','target','--exclude','.git','--exclude','.work','--exclude','replays','--exclude','evidence','/verif/',S+'/verif/'])
    os.makedirs(S+'/verif/replays',exist_ok=True); os.makedirs(S+'/verif/evidence',exist_ok=True)
    sh(['sed','-i','s#/repo/src/lib.rs#%s/repo/src/lib.rs#'%S,S+'/verif/shadow/Cargo.toml'])
    sh(['sed','-i','s#path = "/repo"#path = "%s/repo"#'%S,S+'/verif/miri-harness/Cargo.toml'])
    env=dict(os.environ,CARGO_TARGET_DIR=S+'/target',CARGO_NET_OFFLINE='true',DST_VERIF_DIR=S+'/verif',DST_RUNS=os.environ.get('MUT_RUNS','5000'),DST_CHILD_TIMEOUT_MS='8000',DST_NO_DEFAULT_FEATURES_STAGE='1')
    rc,out=sh(['cargo','build','--release','--offline','-p','dst'],cwd=S+'/verif',env=env)
    assert rc==0,out[-2000:]
    sh(['cargo','test','--offline','--lib','--no-run'],cwd=S+'/repo',env=dict(os.environ,CARGO_TARGET_DIR=S+'/rtarget',CARGO_NET_OFFLINE='true'))
    props="C06 C08 C01 C05 C17 C02 C04 C10 C11 C12 C13 C15 C16 C03 C07 C09 C18 C19 C20".split()
    md='/verif/mutants/MUTATION2.md'
    with open(md,'w') as fh:
        fh.write("# Statement-deletion mutation analysis (tools/mutation2.py %d %d)\n\n%d deletable effect statements found in %d files; %d sampled. Checks run at DST_RUNS=%s, first kill stops.\n\n| # | site | compiles | killed by | pinned suite | verdict |\n|---|---|---|---|---|---|\n"%(N,SEED,total,len(FILES),len(pick),env['DST_RUNS']))
    rows=[]
    for n,(f,i) in enumerate(pick):
        path=S+'/repo/'+f
        src=open(path).read(); lines=src.split('\n'); orig=lines[i]
        lines[i]=re.match(r'^\s*',orig).group(0)+'// (deleted)'
        open(path,'w').write('\n'.join(lines))
        rc,out=sh(['cargo','build','--release','--offline','-p','dst'],cwd=S+'/verif',env=env,timeout=600)
        if rc!=0:
            open(path,'w').write(src); row=(n,f,i+1,orig.strip()[:80],'no','-','-','not compiling')
        else:
            killed=[]
            for p in props:
                rc,o=sh([S+'/target/release/dst','check',p,'--tier','quick'],cwd=S+'/verif',env=env,timeout=400)
                if rc==1: killed.append(p); break
                elif rc!=0: killed.append(p+'(harness:%d)'%rc); break
            rc,o=sh(['cargo','test','--offline','--lib'],cwd=S+'/repo',env=dict(os.environ,CARGO_TARGET_DIR=S+'/rtarget',CARGO_NET_OFFLINE='true'),timeout=600)
            suite='passes' if rc==0 else 'FAILS'
            open(path,'w').write(src)
            verdict='killed' if killed else ('SURVIVED both' if suite=='passes' else 'only the pinned suite kills it')
            row=(n,f,i+1,orig.strip()[:80],'yes',' '.join(killed) or '-',suite,verdict)
        rows.append(row)
        with open(md,'a') as fh:
            fh.write("| %d | %s:%d `%s` | %s | %s | %s | %s |\n"%(row[0],row[1],row[2],row[3].replace('|','\\|'),row[4],row[5],row[6],row[7]))
        print(row,flush=True)
    comp=[r for r in rows if r[4]=='yes']
    with open(md,'a') as fh:
        fh.write("\nSummary: %d sampled, %d compile; %d killed by the checks, %d killed only by the pinned suite, %d survive both.\n"%(len(rows),len(comp),len([r for r in comp if r[7]=='killed']),len([r for r in comp if r[7].startswith('only')]),len([r for r in comp if r[7]=='SURVIVED both'])))
    shutil.rmtree(S,ignore_errors=True)
main()
