#!/usr/bin/env python3
"""Systematic mutation analysis (sampled): single-token mutants of the library's core files,
each applied to a scratch copy of /repo, judged by (a) all 19 checks at reduced size and (b) the
pinned test suite.  Usage: tools/mutation.py <n_mutants> [seed].  Results: mutants/MUTATION.md"""
import os, re, sys, random, subprocess, json, shutil, time
N=int(sys.argv[1]) if len(sys.argv)>1 else 60
SEED=int(sys.argv[2]) if len(sys.argv)>2 else 1
S='/tmp/stretto-mutation'
FILES=['src/policy.rs','src/store.rs','src/ttl.rs','src/cache.rs','src/cache/sync.rs','src/cache/async.rs','src/ring.rs','src/sketch.rs','src/policy/sync.rs','src/policy/async.rs','src/metrics.rs']
OPS=[(r'(?<![<>=!\-])<(?![<=])',' <= '.strip(),'lt->le'),(r'<=','<','le->lt'),(r'(?<![<>=!\-])>(?![>=])','>=','gt->ge'),(r'>=','>','ge->gt'),(r'==','!=','eq->ne'),(r'!=','==','ne->eq'),(r'&&','||','and->or'),(r'\|\|','&&','or->and'),(r'(?<![\w\)\]])\+(?!=)|(?<=[\w\)\]]) \+ (?=[\w\(])',' - ','plus->minus'),(r'(?<=[\w\)\]]) - (?=[\w\(])',' + ','minus->plus'),(r'\+= ','-= ','addassign->subassign'),(r'-= ','+= ','subassign->addassign')]
def candidates():
    out=[]
    for f in FILES:
        lines=open('/repo/'+f).read().split('\n')
        in_test=False; skip_next=False
        for i,l in enumerate(lines):
            st=l.strip()
            if st.startswith('#[cfg(test)]') or st.startswith('mod test'): in_test=True
            if in_test: continue
            if skip_next: skip_next=False; continue
            if 'transparencies_stretto_verif' in l:
                if st.startswith('#[cfg(transparencies_stretto_verif)]'): skip_next=True
                continue
            if st.startswith('//') or st.startswith('#[') or st.startswith('use ') or 'crate::verif::' in l or 'verif_' in l: continue
            if '->' in l and ('fn ' in l or '=>' not in l and l.count('->')>0 and 'fn' in l): continue
            code=l.split('//')[0]
            if re.search(r"'static|\bSend\b|\bSync\b|BuildHasher|Sender<|Receiver<|Arc<|Box<|impl\b|struct\b|\bfn\b|\bpub\b|\bwhere\b|for \$|<[A-Z]|\btype\b|\benum\b|PhantomData|format!|tracing::|CacheError::", code): continue
            for (pat,rep,name) in OPS:
                for m in re.finditer(pat, code):
                    # skip generics / lifetimes / arrows
                    a,b=m.span()
                    ctx=code[max(0,a-1):b+1]
                    if name in('lt->le','gt->ge') and (re.search(r'[A-Za-z_>]\s*<\s*[A-Z\'&]', code[max(0,a-12):b+6]) or '->' in code[max(0,a-1):b+1] or '=>' in code[max(0,a-1):b+1] or 'impl' in code or 'fn ' in code or 'Vec<' in code or 'Option<' in code or 'Result<' in code or 'Arc<' in code or '::<' in code or 'HashMap<' in code):
                        continue
                    out.append((f,i,a,b,rep,name))
    return out
def sh(cmd,cwd=None,env=None,timeout=None):
    try:
        r=subprocess.run(cmd,cwd=cwd,env=env,capture_output=True,text=True,timeout=timeout)
        return r.returncode,r.stdout+r.stderr
    except subprocess.TimeoutExpired:
        return 124,'timeout'
def main():
    random.seed(SEED)
    c=candidates()
    random.shuffle(c)
    pick=c[:N]
    shutil.rmtree(S,ignore_errors=True); os.makedirs(S)
    sh(['rsync','-a','--exclude','target','--exclude','.git','/repo/',S+'/repo/'])
    sh(['rsync','-a','--exclude','target','--exclude','.git','--exclude','.work','--exclude','replays','--exclude','evidence','/verif/',S+'/verif/'])
    os.makedirs(S+'/verif/replays',exist_ok=True); os.makedirs(S+'/verif/evidence',exist_ok=True)
    sh(['sed','-i','s#/repo/src/lib.rs#%s/repo/src/lib.rs#'%S,S+'/verif/shadow/Cargo.toml'])
    sh(['sed','-i','s#path = "/repo"#path = "%s/repo"#'%S,S+'/verif/miri-harness/Cargo.toml'])
    env=dict(os.environ,CARGO_TARGET_DIR=S+'/target',CARGO_NET_OFFLINE='true',DST_VERIF_DIR=S+'/verif',DST_RUNS=os.environ.get('MUT_RUNS','6000'),DST_CHILD_TIMEOUT_MS='8000',DST_NO_DEFAULT_FEATURES_STAGE='1')
    rc,out=sh(['cargo','build','--release','--offline','-p','dst'],cwd=S+'/verif',env=env)
    assert rc==0,out[-2000:]
    rc,out=sh(['cargo','test','--offline','--lib','--no-run'],cwd=S+'/repo',env=dict(os.environ,CARGO_TARGET_DIR=S+'/rtarget',CARGO_NET_OFFLINE='true'))
    props="C01 C02 C03 C04 C05 C06 C07 C08 C09 C10 C11 C12 C13 C15 C16 C17 C18 C19 C20".split()
    rows=[]
    total_candidates=len(c)
    md='/verif/mutants/MUTATION.md'
    with open(md,'w') as fh:
        fh.write("# Sampled mutation analysis (tools/mutation.py %d %d)\n\n%d single-token mutation sites found in %d files; %d sampled.\n\n| # | site | mutation | compiles | killed by checks | pinned suite | verdict |\n|---|---|---|---|---|---|---|\n"%(N,SEED,total_candidates,len(FILES),len(pick)))
    for n,(f,i,a,b,rep,name) in enumerate(pick):
        path=S+'/repo/'+f
        src=open(path).read()
        lines=src.split('\n')
        orig=lines[i]
        lines[i]=orig[:a]+rep+orig[b:]
        open(path,'w').write('\n'.join(lines))
        rc,out=sh(['cargo','build','--release','--offline','-p','dst'],cwd=S+'/verif',env=env,timeout=600)
        if rc!=0:
            open(path,'w').write(src)
            row=(n,f,i+1,name,orig.strip()[:70],'no','-','-','not compiling')
        else:
            killed=[]
            for p in props:
                rc,o=sh([S+'/target/release/dst','check',p,'--tier','quick'],cwd=S+'/verif',env=env,timeout=400)
                if rc==1: killed.append(p)
                elif rc!=0: killed.append(p+'(harness:%d)'%rc)
                if len(killed)>=3: break
            rc,o=sh(['cargo','test','--offline','--lib'],cwd=S+'/repo',env=dict(os.environ,CARGO_TARGET_DIR=S+'/rtarget',CARGO_NET_OFFLINE='true'),timeout=600)
            suite='passes' if rc==0 else 'FAILS'
            open(path,'w').write(src)
            verdict='killed' if [k for k in killed if 'harness' not in k] else ('killed (hang/crash)' if killed else ('SURVIVED both' if suite=='passes' else 'only the pinned suite kills it'))
            row=(n,f,i+1,name,orig.strip()[:70],'yes',' '.join(killed) or '-',suite,verdict)
        rows.append(row)
        with open(md,'a') as fh:
            fh.write("| %d | %s:%d `%s` | %s | %s | %s | %s | %s |\n"%(row[0],row[1],row[2],row[4].replace('|','\\|'),row[3],row[5],row[6],row[7],row[8]))
        print(row,flush=True)
    comp=[r for r in rows if r[5]=='yes']
    k=[r for r in comp if r[8].startswith('killed')]
    surv=[r for r in comp if r[8]=='SURVIVED both']
    only=[r for r in comp if r[8].startswith('only')]
    with open(md,'a') as fh:
        fh.write("\nSummary: %d sampled, %d compile; %d killed by the checks (of which the pinned suite also fails on %d), %d killed only by the pinned suite, %d survive both.\n"%(len(rows),len(comp),len(k),len([r for r in k if r[7]=='FAILS']),len(only),len(surv)))
    shutil.rmtree(S,ignore_errors=True)
main()
