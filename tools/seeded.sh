#!/bin/sh
# Usage: tools/seeded.sh <name> <worktree> [checks...]
# 1. confirms an independently produced breaking change in its scratch worktree
#    (demo fails with it, passes without it, existing suite passes with it),
# 2. stores patch + demonstration + meta under /verif/seeded/<name>/,
# 3. applies the patch to /repo, runs the given checks (default: all), undoes it straight after.
set -u
NAME=$1; WT=$2; shift 2
CHECKS=${*:-"C01 C02 C03 C04 C05 C06 C07 C08 C09 C10 C11 C12 C13 C15 C16 C17 C18 C19 C20"}
OUT=/verif/seeded/$NAME
mkdir -p "$OUT"
cp "$WT/seeded/patch.diff" "$OUT/patch.diff"
[ -f "$WT/seeded/patch_rebased.diff" ] && cp "$WT/seeded/patch_rebased.diff" "$OUT/patch_rebased.diff"
cp "$WT/seeded/meta.json" "$OUT/agent_meta.json" 2>/dev/null
for f in "$WT"/seeded/*.rs; do [ -f "$f" ] && cp "$f" "$OUT/"; done
cd "$WT" || exit 2
export CARGO_NET_OFFLINE=true
DEMO=$(python3 -c "import json;print(json.load(open('$WT/seeded/meta.json')).get('demo_cmd','cargo test --offline --test seeded_demo'))" | sed "s#cd $WT && ##")
echo "== with change: existing suite" > "$OUT/confirm.log"
cargo test --offline --lib >> "$OUT/confirm.log" 2>&1; SUITE=$?
grep -E "^test result" "$OUT/confirm.log" | tail -1
echo "== with change: demo ($DEMO)" >> "$OUT/confirm.log"
sh -c "$DEMO" >> "$OUT/confirm.log" 2>&1; WITH=$?
git apply -R "$OUT/patch.diff"
echo "== without change: demo" >> "$OUT/confirm.log"
sh -c "$DEMO" >> "$OUT/confirm.log" 2>&1; WITHOUT=$?
git apply "$OUT/patch.diff"
echo "suite_with_change_exit=$SUITE demo_with_change_exit=$WITH demo_without_change_exit=$WITHOUT" | tee -a "$OUT/confirm.log"
cd /verif
if [ -n "$(git -C /repo status --porcelain)" ]; then echo "/repo not clean"; exit 2; fi
# a patch written against an older tree is applied in its re-based form (same change, moved context)
APPLY="$OUT/patch.diff"; [ -f "$OUT/patch_rebased.diff" ] && APPLY="$OUT/patch_rebased.diff"
git -C /repo apply "$APPLY" || exit 2
RES=""
for c in $CHECKS; do
  DST_RUNS=${SEEDED_RUNS:-20000} DST_VERIF_DIR=/tmp/seeded-scratch-verif sh -c "mkdir -p /tmp/seeded-scratch-verif/replays /tmp/seeded-scratch-verif/evidence; cp /verif/known_findings.jsonl /tmp/seeded-scratch-verif/; ./dst check $c --tier quick" > /tmp/seeded-$c.log 2>&1
  rc=$?
  rules=$(grep -o "rule=[^ ]*" /tmp/seeded-$c.log | sort -u | sed 's/rule=//' | tr '\n' ',')
  RES="$RES $c:$rc[$rules]"
  if [ $rc -eq 1 ]; then grep -A2 "^VIOLATION" /tmp/seeded-$c.log | head -12 >> "$OUT/caught_by_$c.txt"; fi
done
git -C /repo checkout -- .
rm -rf /tmp/seeded-scratch-verif
# the binary in target/ was built from the patched tree: rebuild it from the clean one
(cd /verif && CARGO_NET_OFFLINE=true cargo build --release --offline -p dst >/dev/null 2>&1)
echo "checks:$RES" | tee -a "$OUT/confirm.log"
python3 - "$OUT" "$SUITE" "$WITH" "$WITHOUT" "$RES" <<'PY'
import json,sys,os
out,suite,w,wo,res=sys.argv[1:6]
am=json.load(open(out+'/agent_meta.json')) if os.path.exists(out+'/agent_meta.json') else {}
caught=[x.split(':')[0] for x in res.split() if ':1[' in x]
meta={"property":am.get("property"),"summary":am.get("summary"),"needs":am.get("needs"),
 "demonstration":am.get("demo_cmd"),"demo_reliability":am.get("demo_reliability"),
 "confirmed_by_me":{"existing_suite_passes_with_change":suite=="0","demo_fails_with_change":w!="0","demo_passes_without_change":wo=="0"},
 "ran":["cargo test --offline --lib (with change)","demo with change","git apply -R patch.diff; demo without change; git apply patch.diff","git -C /repo apply patch.diff; ./dst check <each> --tier quick (DST_RUNS=%s); git -C /repo checkout -- ."%os.environ.get("SEEDED_RUNS","20000")],
 "checks":{x.split(':')[0]:x.split(':',1)[1] for x in res.split()},
 "caught_by":caught}
json.dump(meta,open(out+'/meta.json','w'),indent=1)
print("caught_by",caught)
PY
